"""C04 - beam density conserves particles, decays monotonically, follows its envelope (engine L).

Closed system: one World, one Plasma node (fixed non-identity placement), one Beam with a freshly constructed
SingleRayAttenuator and a mock AtomicData.  Every lattice point is a depth-1 history  construct -> observe ;
the beam is never mutated after construction (stale caches are C01's subject).

Reference model: mc/refs/c04_model.py (closed forms, numpy quadrature; no cherab import).
"""
import itertools
import math

PROPERTY = "C04"
DRIVER = ("Beam + SingleRayAttenuator + mock AtomicData in a World with one Plasma (python-callable analytic profiles); "
          "Beam.density / SingleRayAttenuator.density / Beam.direction observed at quadrature points and stations")

_Q = {
    "energy": [1e3, 6e4], "power": [0.0, 1e6], "element": ["hydrogen", "deuterium"],
    "sigma": [0.01, 0.2], "div": [0.0, 0.5, 3.0], "length": [0.5, 3.0],
    "step": [0.01, 0.05, 10.0], "clamp": [None, 2.0, 5.0],
    "place": ["identity", "translated", "rot90"],
    "plasma": ["none", "uniform", "nonuniform", "slab", "charge-states"],
}
_T = {
    "energy": [1e3, 6e4], "power": [0.0, 1e6], "element": ["hydrogen", "deuterium"],
    "sigma": [0.01, 0.05, 0.2], "div": [0.0, 0.5, 1.5, 3.0], "length": [0.5, 1.7, 3.0],
    "step": [0.003, 0.01, 0.05, 0.3, 10.0], "clamp": [None, 1.0, 2.0, 5.0],
    "place": ["identity", "translated", "rot90", "oblique", "nested"],
    "plasma": ["none", "uniform", "nonuniform", "slab", "charge-states", "uniform-flow", "zero-rate", "neutral"],
}
ALPHABET = {
    "quick": _Q, "thorough": _T,
    "z stations (density)": ["-1e-9", "-5e-324", "0", "1e-9", "axial node nbeam//3", "midpoint between two nodes", "0.618 L",
                             "nextafter(L,0)", "L", "nextafter(L,inf)", "L+1e-9", "2L", "every axial node and every midpoint (on axis)"],
    "cross-section points": "10x10 tensor Gauss-Hermite (clamp off) / 20x8 polar Gauss-Legendre inside the clamp ellipse (clamp on); "
                            "8 directions at r = c(1 -+ 1e-6); r = 7 sigma (clamp off)",
    "direction points": "x,y in sigma*{0, 0.5, -1.3, 4} x z in {-1, -5e-324, 0, 5e-324, 1e-170, 1e-9, 0.05, L/2, L, 2L}; "
                        "3 streamlines integrated by DOP853 from z=0.02 to L",
    "plasma kinds": "none: empty composition; uniform: D+ and C6+ constant n,T, constant rate; nonuniform: D+, He2+, C6+ with "
                    "exp(-x^2)-type densities, varying T, sheared flows, rate k (E/1e4)^.2 (1+n/1e20)^.3 (1+T/2e3)^.4; "
                    "slab: densities exactly 0 outside a box; uniform-flow: constant flows and functional rate; "
                    "zero-rate: species present, rate 0; neutral: nonuniform + a D0 species with a bounded rate",
    "placements": "beam transform identity / translation / translation*rotate_y(90) / oblique rotation / beam under an intermediate "
                  "node; the plasma always sits under a translated node with translate*rotate_z(20)",
}
BOUND = {
    "quick": "full Cartesian product of the quick alphabets (31 104 beam configurations) + 36 direction configurations",
    "thorough": "full Cartesian product of the thorough alphabets (806 400 beam configurations) + 144 direction configurations",
}
RULE = ("one case = (plasma kind, placement, energy, power, element, length, step) x all (sigma, div_x, div_y, clamp); every configuration "
        "is a freshly built scene.  Non-trivial = configuration with power > 0 whose flux integral was compared with the reference, "
        "keyed by the full parameter tuple; direction cases keyed by (sigma, div_x, div_y, length)")
ASSUMPTIONS = [
    "raysect scene-graph transforms, Interpolator1DArray and function autowrapping are trusted",
    "atomic weights of hydrogen/deuterium are taken from the cherab element objects as input data (registry is C19)",
    "with clamp_to_zero the conserved quantity is the Gaussian flux inside the clamp ellipse, R/v*att*(1-exp(-c^2/2)); the "
    "un-truncated flux statement is checked with clamping off",
    "off-node stations: line density is the linear interpolant of the nodal values (documented discretisation); the continuous "
    "integral is compared at nodes with the composite-trapezoid error bound z h^2/12 max|S''|/v (smooth plasmas only)",
    "neutral species get a bounded mock rate (the implementation passes n_eq = inf for Z = 0); stopping rates are >= 0",
    "claim holds on the lattice only",
]
REQUIRED_CLASSES = [
    "reconf", "reconf:plasma-changed", "reconf:plasma-same", "reconf:element", "reconf:energy", "reconf:length", "reconf:step", "reconf:place", "reconf:plasma-place",
    "plasma:none", "plasma:uniform", "plasma:nonuniform", "plasma:slab",
    "place:identity", "place:translated", "place:rot90",
    "div:none", "div:x-only", "div:y-only", "div:equal", "div:unequal",
    "clamp:off", "clamp:on", "power:zero", "power:nonzero",
    "step:4-point-minimum", "step:many-nodes",
    "attenuation:none", "attenuation:>1%", "attenuation:>99%", "S-varies-along-axis", "S-has-zero-and-nonzero-nodes",
    "flow-shifts-E_int>5%", "fine-reference-compared", "fine-reference-bound-nontrivial",
    "zero:before-source", "zero:beyond-length", "zero:outside-clamp", "clamp-off:far-point-nonzero",
    "monotone:strictly-decreasing-somewhere", "direction:z<=0", "direction:diverging", "direction:streamline",
]
BUDGET_S = {"quick": 150, "thorough": 1500}
STATES_MEANING = "distinct lattice points (beam configurations, direction configurations)"

_cache = {}


def _mod():
    """Lazy imports (cherab / raysect must not be imported at module top level)."""
    if _cache:
        return _cache
    import numpy as np
    from raysect.core import AffineMatrix3D, Vector3D, translate, rotate_x, rotate_y, rotate_z
    from raysect.core.scenegraph import Node
    from raysect.optical import World
    from cherab.core import Beam, Plasma, Species, Maxwellian
    from cherab.core.atomic import AtomicData, BeamStoppingRate
    from cherab.core.atomic import hydrogen, deuterium, helium, carbon
    from cherab.core.model import SingleRayAttenuator
    from mc.refs import c04_model as M

    class Rate(BeamStoppingRate):
        def __init__(self, k, mode, charge):
            self.k, self.mode, self.charge = k, mode, charge

        def evaluate(self, energy, density, temperature):
            return M.rate_eval(self.k, self.mode, self.charge, energy, density, temperature)

    class AD(AtomicData):
        def __init__(self, mode):
            self.mode = mode

        def beam_stopping_rate(self, beam_ion, plasma_ion, charge):
            return Rate(M.rate_k(beam_ion.name, plasma_ion.name, charge), self.mode, charge)

    ops = {"t": translate, "rx": rotate_x, "ry": rotate_y, "rz": rotate_z}

    def mat(oplist):
        m = AffineMatrix3D()
        for op in oplist:
            m = m * ops[op[0]](*op[1:])
        return m

    elements = {"hydrogen": hydrogen, "deuterium": deuterium, "helium": helium, "carbon": carbon}

    def species(sp):
        dist = Maxwellian(lambda x, y, z: sp.n(x, y, z, math), lambda x, y, z: sp.T(x, y, z, math),
                          lambda x, y, z: Vector3D(*sp.u(x, y, z, math)), sp.mass * 1.66053906660e-27)
        return Species(elements[sp.element], sp.charge, dist)

    def build(kind, place, energy, power, element, length, step, sigma, divx, divy, clamp):
        """A fresh scene in the canonical construction order.  Returns (beam, keepalive)."""
        world = World()
        pnode = Node(parent=world, transform=mat(M.PLASMA_PARENT_OPS))
        plasma = Plasma(parent=pnode, transform=mat(M.PLASMA_OPS))
        sps, mode, _ = M.PLASMAS[kind]
        plasma.composition = [species(sp) for sp in sps]
        parent_ops, bops = M.PLACEMENTS[place]
        bparent = world if parent_ops is None else Node(parent=world, transform=mat(parent_ops))
        beam = Beam(parent=bparent, transform=mat(bops))
        beam.plasma = plasma
        beam.atomic_data = AD(mode)
        beam.energy = energy
        beam.power = power
        beam.element = elements[element]
        beam.sigma = sigma
        beam.divergence_x = divx
        beam.divergence_y = divy
        beam.length = length
        if clamp is None:
            beam.attenuator = SingleRayAttenuator(step=step)
        else:
            beam.attenuator = SingleRayAttenuator(step=step, clamp_to_zero=True, clamp_sigma=clamp)
        return beam, (world, pnode, plasma, bparent)

    _cache.update(np=np, M=M, build=build, elements=elements, species=species, AD=AD, mat=mat)
    return _cache


def _alph(tier):
    return _T if tier == "thorough" else _Q


def cases(tier):
    a = _alph(tier)
    out = []
    # direction cases first (cheap; explored even if a time cap stops the run early)
    for sigma, dx, dy, length in itertools.product(a["sigma"], a["div"], a["div"], a["length"]):
        out.append({"kind": "dir", "sigma": sigma, "divx": dx, "divy": dy, "length": length, "label": "direction"})
    for kind, place, e, p, el, length, step in itertools.product(a["plasma"], a["place"], a["energy"], a["power"],
                                                                 a["element"], a["length"], a["step"]):
        out.append({"kind": "main", "plasma": kind, "place": place, "energy": e, "power": p, "element": el, "length": length,
                    "step": step, "sigmas": a["sigma"], "divs": a["div"], "clamps": a["clamp"], "label": "main:" + kind})
    # reconfiguration cases: a beam that has already been observed is brought from configuration A to configuration B
    # through the public setters and must then follow the attenuation law of B (analytic reference of B, not a
    # differential comparison): a cache that survives a change shows up here inside C04's own oracle
    kinds = [k for k in a["plasma"]]
    for ka, kb in itertools.product(kinds, kinds):
        for ch in RECONF_CHANGES:
            if ka == kb and not ch:
                continue
            out.append({"kind": "reconf", "from": ka, "to": kb, "changes": ch, "label": "reconf:%s>%s" % (ka, kb)})
    return out


RECONF_BASE = {"energy": 6e4, "power": 1e6, "element": "deuterium", "length": 3.0, "step": 0.05}
RECONF_ALT = {"energy": 1e3, "power": 2.5e5, "element": "hydrogen", "length": 1.7, "step": 0.3}
RECONF_CHANGES = [[], ["element"], ["energy"], ["power"], ["length"], ["step"], ["element", "energy"], ["energy", "length", "step"],
                  ["place"], ["place", "energy"], ["plasma-place"], ["plasma-object"], ["plasma-object", "energy"]]


def _run_reconf(case):
    c = _mod()
    np, M, build = c["np"], c["M"], c["build"]
    from cherab.core import Species, Maxwellian   # noqa: F401 (species built through the same helper as build())
    V = _V()
    ka, kb, changes = case["from"], case["to"], case["changes"]
    place, sigma = "translated", 0.05
    place_b = "rot90" if "place" in changes else place
    A = dict(RECONF_BASE)
    B = dict(RECONF_BASE)
    for k in changes:
        if k in RECONF_ALT:
            B[k] = RECONF_ALT[k]
    classes = ["reconf", "reconf:plasma-changed" if ka != kb else "reconf:plasma-same"] + ["reconf:" + k for k in changes]
    n = 0
    for observe_first in (True, False):
        beam, keep = build(ka, place, A["energy"], A["power"], A["element"], A["length"], A["step"], sigma, 0.0, 0.0, None)
        plasma = keep[2]
        if observe_first:
            beam.density(0.0, 0.0, 0.5 * A["length"])       # fills the attenuator's caches
        # public setters, in a fixed order
        if "plasma-object" in changes:
            # ANOTHER Plasma node (same placement, the species of kb) is assigned to the beam, the first one is emptied afterwards
            from cherab.core import Plasma
            sps, mode, _ = M.PLASMAS[kb]
            plasma2 = Plasma(parent=keep[1], transform=c["mat"](M.PLASMA_OPS))
            plasma2.composition = [c["species"](sp) for sp in sps]
            if ka != kb:
                beam.atomic_data = c["AD"](mode)      # BEFORE the plasma is exchanged: no other beam setter may follow the exchange (its
                beam.density(0.0, 0.0, 0.25 * A["length"])     # notification could repair what the exchange itself forgot)
            beam.plasma = plasma2
            plasma.composition = []
            keep = keep + (plasma2,)
        elif ka != kb:
            sps, mode, _ = M.PLASMAS[kb]
            plasma.composition = [c["species"](sp) for sp in sps]
            beam.atomic_data = c["AD"](mode)
        if "element" in changes:
            beam.element = c["elements"][B["element"]]
        if "energy" in changes:
            beam.energy = B["energy"]
        if "power" in changes:
            beam.power = B["power"]
        if "length" in changes:
            beam.length = B["length"]
        if "step" in changes:
            beam.attenuator.step = B["step"]
        if "place" in changes:
            beam.transform = c["mat"](M.PLACEMENTS[place_b][1])        # the beam is moved / rotated in the scene graph
        if "plasma-place" in changes:
            # the plasma's parent node is moved away and back: two scene-graph notifications, same final placement
            keep[1].transform = c["mat"]([("t", 0.7, -0.2, 0.3)])
            beam.density(0.0, 0.0, 0.25 * B["length"])
            keep[1].transform = c["mat"](M.PLASMA_PARENT_OPS)
        ref = M.axis_reference(kb, place_b, B["element"], B["energy"], B["length"], B["step"])
        lam0 = M.source_line_density(B["power"], B["energy"], c["elements"][B["element"]].atomic_weight)
        zn = ref["z"]
        a_end = float(ref["a_trap"][-1])
        rtol = 1e-12 + 1e-11 * a_end
        norm = 2.0 * math.pi * sigma * sigma
        bad = None
        for z, a in zip(zn, ref["a_trap"]):
            n += 1
            exp = lam0 * math.exp(-float(a))
            try:
                obs = beam.density(0.0, 0.0, float(z)) * norm
            except Exception as ex:  # noqa
                bad = (float(z), exp, "%s: %s" % (type(ex).__name__, str(ex)[:120]))
                break
            if not _close(obs, exp, rtol):
                bad = (float(z), exp, obs)
                break
        if bad is not None:
            lab = "+".join((["plasma"] if ka != kb else []) + list(changes))
            V.add("reconfigure:%s:%s:on-axis-line-density-not-that-of-the-final-configuration" % (lab, "after-observation" if observe_first else "before-any-observation"),
                  "beam built with plasma=%s %r, %s, then brought to plasma=%s %r through the public setters; z=%g" % (ka, A, "observed once" if observe_first else "not observed", kb, B, bad[0]),
                  bad[1], bad[2])
    return {"viol": V.list(), "classes": classes, "n": n, "outcome": ("reconf", ka, kb, tuple(changes), len(V.list())),
            "states": [("reconf", ka, kb, tuple(changes))], "transitions": n, "nontrivial": [("reconf", ka, kb, tuple(changes))]}


def crash_label(case):
    return case.get("label", "case")


def _divclass(dx, dy):
    if dx == 0 and dy == 0:
        return "none"
    if dy == 0:
        return "x-only"
    if dx == 0:
        return "y-only"
    return "equal" if dx == dy else "unequal"


class _V:
    """Collects violations, one per signature per case (the first), and counts."""

    def __init__(self):
        self.by_sig = {}

    def add(self, sig, what, expected, observed):
        sig = "C04:" + sig
        if sig not in self.by_sig:
            self.by_sig[sig] = {"sig": sig, "what": what, "expected": expected, "observed": observed}

    def list(self):
        return [self.by_sig[k] for k in sorted(self.by_sig)]


def _close(obs, exp, rel):
    if not (obs == obs) or obs in (float("inf"), float("-inf")):
        return False
    return abs(obs - exp) <= rel * max(abs(obs), abs(exp))


def run_case(case):
    if case["kind"] == "main":
        return _run_main(case)
    if case["kind"] == "reconf":
        return _run_reconf(case)
    return _run_dir(case)


# ------------------------------------------------------------------------------------------------ main cases
def _run_main(case):
    c = _mod()
    np, M, build = c["np"], c["M"], c["build"]
    kind, place = case["plasma"], case["place"]
    E, P, el, L, step = case["energy"], case["power"], case["element"], case["length"], case["step"]
    V = _V()
    classes, states, nontrivial = [], [], []
    nevals = 0

    weight = c["elements"][el].atomic_weight
    ref = M.axis_reference(kind, place, el, E, L, step)
    lam0 = M.source_line_density(P, E, weight)
    zn = ref["z"]
    nb = len(zn)
    a_trap = ref["a_trap"]
    a_end = float(a_trap[-1])
    # rounding budget: 1e-12 without stopping (DESIGN: flux independent of z, rel 1e-12); with stopping the exponent a is a
    # sum of nb terms each carrying a few ulp of profile/rate evaluation error (libm exp/pow vs numpy), |delta a| <~ 1e-14 a * few,
    # and flux = exp(-a) inherits |delta a| as a relative error.
    rtol = 1e-12 + 1e-11 * a_end
    where = "plasma=%s place=%s E=%g P=%g %s L=%g step=%g" % (kind, place, E, P, el, L, step)

    # class labels of the axial problem
    classes += ["plasma:" + kind, "place:" + place, "power:zero" if P == 0 else "power:nonzero",
                "step:4-point-minimum" if nb == 4 and L / step < 3 else "step:many-nodes"]
    if a_end == 0.0:
        classes.append("attenuation:none")
    if a_end > 0.01:
        classes.append("attenuation:>1%")
    if a_end > 4.6:
        classes.append("attenuation:>99%")
    S = ref["S"]
    if S.max() > 0 and (S.max() - S.min()) > 0.1 * S.max():
        classes.append("S-varies-along-axis")
    if S.max() > 0 and S.min() == 0.0:
        classes.append("S-has-zero-and-nonzero-nodes")
    if kind in ("nonuniform", "uniform-flow", "slab", "neutral"):
        # does the flow matter?  compare S with the value the lab-frame beam energy would give
        # (only used as a vacuity label: a reference that ignored the flow would be indistinguishable otherwise)
        m_bp = M.beam_to_plasma(place)
        d = m_bp[:3, 2]
        sp0 = M.PLASMAS[kind][0][0]
        pt = m_bp[:3, 2] * zn[nb // 2] + m_bp[:3, 3]
        u = [float(t) for t in sp0.u(pt[0], pt[1], pt[2], np)]
        v0 = ref["v0"]
        e_int = M.energy_of_speed(math.sqrt(sum((v0 * d[i] - u[i]) ** 2 for i in range(3))))
        if abs(e_int - E) > 0.05 * E:
            classes.append("flow-shifts-E_int>5%")

    k = nb // 3
    stations = [("z=0", 0.0), ("node", float(zn[k])), ("between", 0.5 * float(zn[k] + zn[k + 1])), ("arbitrary", 0.618 * L), ("z=L", L)]
    att_nodes = np.exp(-a_trap)
    lam_st = [lam0 * float(np.interp(z, zn, att_nodes)) for _, z in stations]
    before = [-1e-9, -5e-324]
    beyond = [float(np.nextafter(L, np.inf)), L + 1e-9, 2.0 * L]
    # on-axis stations: every node, every midpoint, and the two points just inside the domain edges
    zaxis = np.unique(np.concatenate((zn, 0.5 * (zn[1:] + zn[:-1]), [1e-9, float(np.nextafter(L, 0.0))])))
    isnode = np.isin(zaxis, zn)
    ratio_ref = np.interp(zaxis, zn, att_nodes)      # linear interpolant of the nodal values / source value
    # conditioning of the linear interpolation: the interpolation parameter t = (z - z_k)/(z_{k+1} - z_k) carries a rounding
    # error of a few ulp, which moves the interpolant by |y_k - y_{k+1}| * few * 2^-53 (matters next to z = L when one
    # interval spans many e-foldings: y_k/y_{k+1} ~ 1e7 for the 4-node minimum); zero at the nodes themselves
    iv = np.clip(np.searchsorted(zn, zaxis, side="right") - 1, 0, nb - 2)
    interp_slack = np.where(isnode, 0.0, 8.0 * 2.0 ** -53 * np.abs(att_nodes[iv] - att_nodes[iv + 1]))
    att_decade = int(min(a_end, 60.0))
    have_fine = ref["a_fine"] is not None
    if have_fine:
        lim_fine = ref["tol_fine"] + 1e-12 + 1e-11 * a_end
        # the two references must agree with each other within the trapezoid error bound, otherwise the model is wrong
        if np.any(np.abs(a_trap - ref["a_fine"]) > lim_fine):
            raise RuntimeError("reference model inconsistent: trapezoid vs Gauss-Legendre beyond the h^2 bound for " + where)
    axial_fail = []      # labelled after all configurations of the case are known

    for sigma, dx, dy, clamp in itertools.product(case["sigmas"], case["divs"], case["divs"], case["clamps"]):
        cfg = (kind, place, E, P, el, L, step, sigma, dx, dy, clamp)
        states.append(cfg)
        dcl = _divclass(dx, dy)
        ccl = "off" if clamp is None else "on"
        classes += ["div:" + dcl, "clamp:" + ccl]
        cw = "%s sigma=%g div=(%g,%g) clamp=%s" % (where, sigma, dx, dy, clamp)
        explained = False
        try:
            beam, keep = build(kind, place, E, P, el, L, step, sigma, dx, dy, clamp)
            dens = beam.density
            att = beam.attenuator
            dens(0.0, 0.0, 0.5 * L)     # first observation triggers the attenuation calculation
        except Exception as ex:  # noqa
            V.add("exception:construct-or-first-density:%s:%s" % (kind, type(ex).__name__), cw, "a density value", "%s: %s" % (type(ex).__name__, str(ex)[:200]))
            continue
        try:
            # ---- zero before the source and beyond the length (on and off axis)
            for z in before:
                for (x, y) in ((0.0, 0.0), (0.3 * sigma, -0.2 * sigma)):
                    v = dens(x, y, z)
                    nevals += 1
                    if v != 0.0:
                        V.add("zero:before-source", "%s density(%g,%g,%r)" % (cw, x, y, z), 0.0, v)
            classes.append("zero:before-source")
            for z in beyond:
                for (x, y) in ((0.0, 0.0), (0.3 * sigma, -0.2 * sigma)):
                    v = dens(x, y, z)
                    nevals += 1
                    if v != 0.0:
                        V.add("zero:beyond-length", "%s density(%g,%g,%r)" % (cw, x, y, z), 0.0, v)
            classes.append("zero:beyond-length")

            # ---- (A)+(B) on axis: line density  n(0,0,z) 2 pi sx sy  at every node, midpoint and inner edge point
            onax = np.array([dens(0.0, 0.0, float(z)) for z in zaxis])
            nevals += len(zaxis)
            if not np.all(np.isfinite(onax)) or np.any(onax < 0.0):
                V.add("nonfinite:on-axis:%s" % kind, cw, "finite, >= 0", [float(np.nanmin(onax)), float(np.nanmax(onax))])
                continue
            tx, ty = math.tan(dx * M.DEG), math.tan(dy * M.DEG)
            area = 2.0 * math.pi * np.sqrt(sigma ** 2 + (zaxis * tx) ** 2) * np.sqrt(sigma ** 2 + (zaxis * ty) ** 2)
            lam_impl = onax * area
            if not _close(float(lam_impl[0]), lam0, 1e-12) and not (lam_impl[0] == 0.0 and lam0 == 0.0):
                explained = True
                V.add("source-line-density", "%s: on-axis density(0,0,0) * 2 pi sigma^2 vs P/(E m)/v" % cw, lam0, float(lam_impl[0]))
            if P == 0:
                if np.any(onax != 0.0):
                    explained = True
                    V.add("power-zero:nonzero-density", cw, 0.0, float(onax.max()))
            elif lam_impl[0] > 0.0:
                ratio = lam_impl / lam_impl[0]
                bad = np.abs(ratio - ratio_ref) > (rtol + 1e-13) * np.maximum(ratio, ratio_ref) + interp_slack
                h2 = "n/a (S not smooth)"
                fine_bad = None
                if have_fine:
                    classes.append("fine-reference-compared")
                    if float(ref["tol_fine"][-1]) > 1e-6:
                        classes.append("fine-reference-bound-nontrivial")
                    with np.errstate(divide="ignore"):
                        a_impl = -np.log(ratio[isnode])
                    fine_bad = np.abs(a_impl - ref["a_fine"]) > lim_fine
                    h2 = "no" if fine_bad.any() else "yes"
                if bad.any():
                    explained = True
                    idx = np.nonzero(bad)[0]
                    i = int(idx[0])
                    if idx.max() <= 1:
                        edge = "z=0"
                    elif idx.min() >= len(zaxis) - 2:
                        edge = "z=L"
                    else:
                        edge = None
                    axial_fail.append((dcl, edge, "%s: line density n(0,0,z) 2 pi sx sy / its value at z=0, at z=%r (%s), vs exp(-trapezoid(S)/v) on the documented nodes "
                                       "(linear between nodes); %d of %d on-axis stations differ; within the O(h^2) bound of the continuous integral: %s"
                                       % (cw, float(zaxis[i]), "node" if isnode[i] else "off-node", len(idx), len(zaxis), h2), float(ratio_ref[i]), float(ratio[i])))
                elif fine_bad is not None and fine_bad.any():
                    i = int(np.argmax(fine_bad))
                    explained = True
                    V.add("continuous-integral-bound:%s" % kind, "%s: -ln(line density ratio) at node z=%r vs Gauss-Legendre integral of S/v; allowed |diff| = z h^2/12 max|S''|/v + rounding = %.3g"
                          % (cw, float(zn[i]), float(lim_fine[i])), float(ref["a_fine"][i]), float(a_impl[i]))
            # monotonic decay on axis.  Slack 1e-15 relative (a few ulp) for the rounding of the linear interpolation.
            inc = onax[1:] > onax[:-1] * (1.0 + 1e-15)
            if inc.any():
                i = int(np.argmax(inc))
                V.add("monotone:%s:div=%s" % (kind, dcl), "%s: on-axis density increases between z=%r and z=%r" % (cw, float(zaxis[i]), float(zaxis[i + 1])), float(onax[i]), float(onax[i + 1]))
            if P > 0 and np.any(onax[1:] < onax[:-1] * (1.0 - 1e-9)):
                classes.append("monotone:strictly-decreasing-somewhere")

            # ---- (C) cross-sections at the stations: shape relative to the on-axis value, and the flux itself
            for (zlab, z), lam_ref in zip(stations, lam_st):
                sx, sy = M.sigmas(sigma, dx, dy, z)
                n_axis = dens(0.0, 0.0, z)
                nevals += 1
                if clamp is None:
                    flux = m2x = m2y = mxy = 0.0
                    for x, y, w in M.gh_points(sx, sy):
                        v = dens(x, y, z) * w
                        flux += v
                        m2x += v * x * x
                        m2y += v * y * y
                        mxy += v * x * y
                    nevals += M.GH_N * M.GH_N
                    frac, qtol = 1.0, 0.0
                else:
                    flux = 0.0
                    for x, y, w in M.polar_points(sx, sy, clamp):
                        flux += dens(x, y, z) * w
                    nevals += M.POLAR_NR * M.POLAR_NT
                    frac = M.clamp_fraction(clamp)
                    qtol = 3e-13       # error of the 20-node Gauss-Legendre rule in r (see c04_model._selfcheck)
                if not (flux == flux) or abs(flux) == float("inf"):
                    V.add("nonfinite:flux:%s" % kind, "%s z=%s" % (cw, zlab), lam_ref * frac, flux)
                    continue
                if n_axis > 0.0:
                    shape = flux / (n_axis * 2.0 * math.pi * sx * sy)
                    if not _close(shape, frac, 1e-12 + qtol):
                        explained = True
                        V.add("transverse:normalisation:div=%s:clamp=%s" % (dcl, ccl), "%s station %s: cross-section integral / (on-axis density * 2 pi sx(z) sy(z)) vs %s"
                              % (cw, zlab, "1" if clamp is None else "1-exp(-c^2/2)"), frac, shape)
                    if clamp is None and flux > 0.0:
                        for nm, obs, ex_ in (("x2", m2x / flux, sx * sx), ("y2", m2y / flux, sy * sy)):
                            if not _close(obs, ex_, 1e-11):
                                explained = True
                                V.add("transverse:moment-%s:div=%s" % (nm, dcl), "%s station %s: second moment of the cross-section vs sigma(z)^2" % (cw, zlab), ex_, obs)
                        if abs(mxy / flux) > 1e-11 * sx * sy:
                            explained = True
                            V.add("transverse:moment-xy:div=%s" % dcl, "%s station %s: mixed moment" % (cw, zlab), 0.0, mxy / flux)
                # the property itself: flux = R/v exp(-int S/v)  (times the Gaussian fraction inside the clamp ellipse)
                if not _close(flux, lam_ref * frac, rtol + 1e-12 + qtol) and not (flux == 0.0 and lam_ref == 0.0):
                    if not explained:
                        V.add("flux:unexplained:%s" % kind, "%s station %s: cross-section integral of Beam.density vs R/v*exp(-trapezoid(S)/v)%s although source value, "
                              "on-axis ratio and transverse shape all agree" % (cw, zlab, "" if clamp is None else "*(1-exp(-c^2/2))"), lam_ref * frac, flux)

                # ---- clamp boundary / far field, relative to the on-axis value
                if clamp is not None:
                    for j in range(8):
                        th = 2.0 * math.pi * (j + 0.25) / 8
                        for r, inside in ((clamp * (1.0 - 1e-6), True), (clamp * (1.0 + 1e-6), False)):
                            x, y = sx * r * math.cos(th), sy * r * math.sin(th)
                            v = dens(x, y, z)
                            nevals += 1
                            if inside:
                                if not _close(v, n_axis * math.exp(-0.5 * r * r), 1e-11):
                                    V.add("transverse:inside-clamp-value:div=%s" % dcl, "%s station %s: density just inside the clamp radius vs on-axis density * exp(-r^2/2)" % (cw, zlab), n_axis * math.exp(-0.5 * r * r), v)
                            elif v != 0.0:
                                V.add("zero:outside-clamp", "%s station %s: density at normalised radius c(1+1e-6)" % (cw, zlab), 0.0, v)
                    classes.append("zero:outside-clamp")
                else:
                    r = 7.0
                    x, y = sx * r * math.cos(0.7), sy * r * math.sin(0.7)
                    v = dens(x, y, z)
                    nevals += 1
                    if not _close(v, n_axis * math.exp(-0.5 * r * r), 1e-11):
                        V.add("transverse:far-value-clamp-off:div=%s" % dcl, "%s station %s: density at 7 sigma with clamping off vs on-axis density * exp(-r^2/2)" % (cw, zlab), n_axis * math.exp(-0.5 * r * r), v)
                    if v > 0.0:
                        classes.append("clamp-off:far-point-nonzero")
                # SingleRayAttenuator.density is the same function inside the beam
                x, y = 0.4 * sx, -0.9 * sy
                v1, v2 = dens(x, y, z), att.density(x, y, z)
                nevals += 2
                if v1 != v2:
                    V.add("attenuator-vs-beam-density", "%s station %s: Beam.density != SingleRayAttenuator.density inside the beam" % (cw, zlab), v2, v1)
            if P > 0:
                nontrivial.append(cfg)
        except Exception as ex:  # noqa
            V.add("exception:observe:%s:%s" % (kind, type(ex).__name__), cw, "a density value", "%s: %s" % (type(ex).__name__, str(ex)[:200]))
        del beam, keep

    # label the on-axis failures: a defect of the axial attenuation shows in the non-diverging configurations too,
    # a defect of the envelope normalisation 1/(2 pi sx(z) sy(z)) only in the diverging ones
    nondiv_fails = any(f[0] == "none" for f in axial_fail)
    for dcl, edge, what, ex_, obs in axial_fail:
        if edge is not None:
            V.add("on-axis:domain-edge:%s" % edge, what, ex_, obs)
        elif not nondiv_fails:
            V.add("on-axis:envelope-normalisation:div=%s" % dcl, what, ex_, obs)
        else:
            V.add("on-axis:attenuation:%s" % kind, what, ex_, obs)

    viol = V.list()
    return {"viol": viol, "classes": classes, "n": max(nevals, 1), "states": states, "transitions": max(nevals, 1),
            "nontrivial": nontrivial,
            "outcome": ("main", kind, place, P > 0, att_decade, tuple(v["sig"] for v in viol))}


# ------------------------------------------------------------------------------------------------ direction cases
def _run_dir(case):
    c = _mod()
    np, M, build = c["np"], c["M"], c["build"]
    from scipy.integrate import solve_ivp
    sigma, dx, dy, L = case["sigma"], case["divx"], case["divy"], case["length"]
    V = _V()
    classes = []
    nevals = 0
    dcl = _divclass(dx, dy)
    cw = "sigma=%g div=(%g,%g) L=%g" % (sigma, dx, dy, L)
    beam, keep = build("none", "translated", 6e4, 1e6, "deuterium", L, 0.05, sigma, dx, dy, None)
    zs = [("z<0", -1.0), ("z=-denormal", -5e-324), ("z=0", 0.0), ("z=+denormal", 5e-324), ("z=1e-170", 1e-170), ("z=1e-9", 1e-9),
          ("z=0.05", 0.05), ("z=L/2", 0.5 * L), ("z=L", L), ("z=2L", 2.0 * L)]
    offs = [0.0, 0.5, -1.3, 4.0]
    tangent_failed = False
    for zlab, z in zs:
        for fx in offs:
            for fy in offs:
                x, y = fx * sigma, fy * sigma
                nevals += 1
                try:
                    d = beam.direction(x, y, z)
                except Exception as ex:  # noqa
                    V.add("direction:exception:%s:%s" % ("z>0-and-z*z-underflows" if (z > 0 and z * z == 0.0) else ("z>0" if z > 0 else "z<=0"), type(ex).__name__), "%s direction(%g,%g,%r)" % (cw, x, y, z),
                          list(M.direction(sigma, dx, dy, x, y, z)), "%s: %s" % (type(ex).__name__, str(ex)[:120]))
                    continue
                dv = (d.x, d.y, d.z)
                ln = math.sqrt(dv[0] ** 2 + dv[1] ** 2 + dv[2] ** 2)
                if not abs(ln - 1.0) <= 1e-12:
                    V.add("direction:not-unit:div=%s" % dcl, "%s direction(%g,%g,%r)" % (cw, x, y, z), 1.0, ln)
                e = M.direction(sigma, dx, dy, x, y, z)
                if z <= 0:
                    classes.append("direction:z<=0")
                    if dv != (0.0, 0.0, 1.0):
                        V.add("direction:z<=0", "%s direction(%g,%g,%r)" % (cw, x, y, z), [0.0, 0.0, 1.0], list(dv))
                    continue
                cr = (dv[1] * e[2] - dv[2] * e[1], dv[2] * e[0] - dv[0] * e[2], dv[0] * e[1] - dv[1] * e[0])
                dot = dv[0] * e[0] + dv[1] * e[1] + dv[2] * e[2]
                if not (math.sqrt(cr[0] ** 2 + cr[1] ** 2 + cr[2] ** 2) <= 1e-12 and dot > 0):
                    tangent_failed = True
                    V.add("direction:tangent:div=%s" % dcl, "%s direction(%g,%g,%r) vs tangent of x/sigma_x(z)=const, y/sigma_y(z)=const" % (cw, x, y, z), list(e), list(dv))
                if (e[0] != 0.0 or e[1] != 0.0):
                    classes.append("direction:diverging")

    # streamlines of the implementation's direction field keep x/sigma_x(z), y/sigma_y(z) and the Gaussian factor of
    # Beam.density constant (consistency of density() and direction()).  DOP853 with rtol 1e-11: tolerance 1e-8.
    z0 = 0.02
    for fx, fy in ((0.7, -1.1), (2.0, 0.3), (-0.2, 3.0)):
        x0, y0 = fx * sigma, fy * sigma
        cnt = [0]

        def rhs(z, p):
            cnt[0] += 1
            d = beam.direction(p[0], p[1], z)
            return [d.x / d.z, d.y / d.z]
        try:
            sol = solve_ivp(rhs, (z0, L), [x0, y0], method="DOP853", rtol=1e-11, atol=1e-16)
        except Exception as ex:  # noqa
            V.add("direction:exception:streamline:%s" % type(ex).__name__, cw, "a streamline", str(ex)[:120])
            continue
        nevals += cnt[0]
        x1, y1 = float(sol.y[0, -1]), float(sol.y[1, -1])
        s0, s1 = M.sigmas(sigma, dx, dy, z0), M.sigmas(sigma, dx, dy, L)
        obs = (x1 / s1[0], y1 / s1[1])
        ex_ = (x0 / s0[0], y0 / s0[1])
        classes.append("direction:streamline")
        if tangent_failed:
            continue        # the pointwise tangent oracle already failed for this configuration: a streamline mismatch is its consequence
        if not (sol.success and abs(obs[0] - ex_[0]) <= 1e-8 * max(1.0, abs(ex_[0])) and abs(obs[1] - ex_[1]) <= 1e-8 * max(1.0, abs(ex_[1]))):
            V.add("direction:streamline:div=%s" % dcl, "%s streamline from (%g,%g,%g) to z=%g: x/sigma_x, y/sigma_y" % (cw, x0, y0, z0, L), list(ex_), list(obs))
        a0, a1 = beam.density(0.0, 0.0, z0), beam.density(0.0, 0.0, L)
        nevals += 4
        if not (a0 > 0.0 and a1 > 0.0):
            V.add("direction:density-along-streamline:on-axis-density-not-positive", "%s on-axis density at z=%g and z=L" % (cw, z0), "> 0", [a0, a1])
            continue
        g0 = beam.density(x0, y0, z0) / a0
        g1 = beam.density(x1, y1, L) / a1
        if not _close(g1, g0, 1e-7):
            V.add("direction:density-along-streamline:div=%s" % dcl, "%s density/on-axis density at both ends of a direction streamline from (%g,%g,%g) to z=%g" % (cw, x0, y0, z0, L), g0, g1)
    viol = V.list()
    return {"viol": viol, "classes": classes, "n": nevals, "states": [("dir", sigma, dx, dy, L)], "transitions": nevals,
            "nontrivial": [("dir", sigma, dx, dy, L)], "outcome": ("dir", dcl, tuple(v["sig"] for v in viol))}
