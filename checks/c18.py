"""C18 - laser profiles and laser spectra.

Engine L: cross-section / volume integrals of the energy density (trapezoid rule, see mc/refs/laser_ref.py)
against E_p/(c tau) and E_p, second moments against the documented widths, segment tiling of
[0, laser_length], per-bin power of the laser spectra against the integral of the documented unit-power
density, accessors against the constructor arguments.

Engine H: every public setter of the four profiles and the two spectra (two valid values each, plus the
values each setter documents as rejected), all sequences up to the bound, with/without reads before each
operation, from two start configurations, profile detached / attached to a Laser node.  Oracle: every
observable of the live object == the same observable of an object freshly constructed from the model state
(a dict slot -> value updated by "a setter sets its slot; a rejected value changes nothing").
"""
import itertools
import math

PROPERTY = "C18"
DRIVER = ("L: profile(constructor args) -> get_energy_density on a quadrature grid / generate_geometry / Laser.get_geometry; "
          "spectrum(min,max,bins[,mean,stddev]) -> power_spectral_density, wavelengths, accessors, density.  "
          "H: one profile (detached or attached to Laser(parent=World())) or one spectrum, setter histories, differential vs fresh object")

C_LIGHT = 299792458.0

# ----------------------------------------------------------------------------------------------------------------
# class tables (names are the public API of cherab.core.model.laser)
# ----------------------------------------------------------------------------------------------------------------
SHORT = {"UED": "UniformEnergyDensity", "CBG": "ConstantBivariateGaussian", "TRI": "TrivariateGaussian",
         "GBA": "GaussianBeamAxisymmetric", "CS": "ConstantSpectrum", "GS": "GaussianSpectrum"}

# documented constructor defaults (signature in the class docstrings / __init__)
DEFAULTS = {
    "UED": {"energy_density": 1.0, "laser_length": 1.0, "laser_radius": 0.05, "polarization": (0.0, 1.0, 0.0)},
    "CBG": {"pulse_energy": 1.0, "pulse_length": 1.0, "laser_radius": 0.05, "laser_length": 1.0, "stddev_x": 0.01,
            "stddev_y": 0.01, "polarization": (0.0, 1.0, 0.0)},
    "TRI": {"pulse_energy": 1.0, "pulse_length": 1.0, "mean_z": 0.0, "laser_length": 1.0, "laser_radius": 0.05,
            "stddev_x": 0.01, "stddev_y": 0.01, "polarization": (0.0, 1.0, 0.0)},
    "GBA": {"pulse_energy": 1.0, "pulse_length": 1.0, "laser_length": 1.0, "laser_radius": 0.05, "waist_z": 0.0,
            "stddev_waist": 0.01, "laser_wavelength": 1e3, "polarization": (0.0, 1.0, 0.0)},
}
# second start configuration (non default); the spectra have no defaults: two explicit starts
START1 = {
    "UED": {"energy_density": 2.5, "laser_length": 0.5, "laser_radius": 0.06, "polarization": (1.0, 1.0, 0.0)},
    "CBG": {"pulse_energy": 2.0, "pulse_length": 1e-8, "laser_radius": 0.06, "laser_length": 0.5, "stddev_x": 0.004,
            "stddev_y": 0.012, "polarization": (1.0, 1.0, 0.0)},
    "TRI": {"pulse_energy": 2.0, "pulse_length": 1e-8, "mean_z": 0.25, "laser_length": 0.5, "laser_radius": 0.06,
            "stddev_x": 0.004, "stddev_y": 0.012, "polarization": (1.0, 1.0, 0.0)},
    "GBA": {"pulse_energy": 2.0, "pulse_length": 1e-8, "laser_length": 0.5, "laser_radius": 0.06, "waist_z": 0.25,
            "stddev_waist": 0.003, "laser_wavelength": 694.3, "polarization": (1.0, 1.0, 0.0)},
    "CS": {"min_wavelength": 1063.2, "max_wavelength": 1064.9, "bins": 5},
    "GS": {"min_wavelength": 1063.2, "max_wavelength": 1064.9, "bins": 5, "mean": 1064.1, "stddev": 0.15},
}
START0_SPEC = {
    "CS": {"min_wavelength": 1059.0, "max_wavelength": 1069.0, "bins": 10},
    "GS": {"min_wavelength": 1059.0, "max_wavelength": 1069.0, "bins": 10, "mean": 1064.0, "stddev": 0.5},
}

_GEOM_OPS = [("laser_length", "set", 0.35), ("laser_length", "set", 0.12), ("laser_radius", "set", 0.04), ("laser_radius", "set", 0.07)]
_POL_OPS = [("set_polarization", "pol", (1.0, 0.0, 0.0)), ("set_polarization", "pol", (0.0, 3.0, 4.0))]
_PULSE_OPS = [("pulse_energy", "set", 0.3), ("pulse_energy", "set", 5.0), ("pulse_length", "set", 1e-9), ("pulse_length", "set", 2.0)]
_GEOM_BAD = [("laser_length", "bad", -1.0), ("laser_radius", "bad", 0.0)]
_PULSE_BAD = [("pulse_energy", "bad", 0.0), ("pulse_length", "bad", -1e-9)]

# (slot / method, kind, value): kind 'set' = property assignment with a valid value, 'pol' = set_polarization(Vector3D),
# 'bad' = property assignment with a value the setter documents as rejected (ValueError, nothing changes)
OPS = {
    "UED": [("energy_density", "set", 0.3), ("energy_density", "set", 5.0)] + _GEOM_OPS + _POL_OPS
           + [("energy_density", "bad", 0.0)] + _GEOM_BAD,
    "CBG": _PULSE_OPS + _GEOM_OPS + [("stddev_x", "set", 5e-3), ("stddev_x", "set", 2e-2), ("stddev_y", "set", 7e-3), ("stddev_y", "set", 3e-2)]
           + _POL_OPS + _PULSE_BAD + _GEOM_BAD + [("stddev_x", "bad", 0.0), ("stddev_y", "bad", -0.01)],
    "TRI": _PULSE_OPS + _GEOM_OPS + [("stddev_x", "set", 5e-3), ("stddev_x", "set", 2e-2), ("stddev_y", "set", 7e-3), ("stddev_y", "set", 3e-2),
                                     ("mean_z", "set", -1.0), ("mean_z", "set", 0.5)]
           + _POL_OPS + _PULSE_BAD + _GEOM_BAD + [("stddev_x", "bad", 0.0), ("stddev_y", "bad", -0.01)],
    "GBA": _PULSE_OPS + _GEOM_OPS + [("waist_z", "set", -0.5), ("waist_z", "set", 0.7), ("stddev_waist", "set", 5e-3), ("stddev_waist", "set", 2e-2),
                                     ("laser_wavelength", "set", 532.0), ("laser_wavelength", "set", 1064.0)]
           + _POL_OPS + _PULSE_BAD + _GEOM_BAD + [("stddev_waist", "bad", -1.0), ("laser_wavelength", "bad", 0.0)],
    "CS": [("min_wavelength", "set", 1063.0), ("min_wavelength", "set", 1063.5), ("max_wavelength", "set", 1064.6), ("max_wavelength", "set", 1065.2),
           ("bins", "set", 1), ("bins", "set", 3), ("bins", "set", 7),
           ("min_wavelength", "bad", 1070.0), ("min_wavelength", "bad", -1.0), ("max_wavelength", "bad", 1000.0), ("bins", "bad", 0)],
    "GS": [("min_wavelength", "set", 1063.0), ("min_wavelength", "set", 1063.5), ("max_wavelength", "set", 1064.6), ("max_wavelength", "set", 1065.2),
           ("bins", "set", 1), ("bins", "set", 3), ("bins", "set", 7),
           ("mean", "set", 1063.8), ("mean", "set", 1064.4), ("stddev", "set", 0.05), ("stddev", "set", 0.3),
           ("min_wavelength", "bad", 1070.0), ("min_wavelength", "bad", -1.0), ("max_wavelength", "bad", 1000.0), ("bins", "bad", 0),
           ("mean", "bad", -1.0), ("stddev", "bad", 0.0)],
}
PROFILE_KEYS = ("UED", "CBG", "TRI", "GBA")
SPECTRUM_KEYS = ("CS", "GS")
# the profile assigned again to the Laser that already holds it (no effect on a detached profile): no parameter changes, every later
# parameter change must still reach the laser's geometry
for _k in PROFILE_KEYS:
    OPS[_k] = OPS[_k] + [("laser.laser_profile=same-profile", "reattach", None)]

# observation points (laser frame) for the energy density / polarisation / pointing
OBS_POINTS = [(0.0, 0.0, 0.0), (0.006, 0.0, 0.3), (0.004, -0.007, 0.7), (0.01, 0.02, -0.5), (-0.003, 0.001, 1.2)]
OBS_WVL = [1063.1, 1063.9, 1064.25, 1064.8, 1066.0]

ALPHABET = {
    "L.profiles": {
        "ConstantBivariateGaussian": "pulse_energy x pulse_length x stddev_x x stddev_y, 7 z stations; integral, <x>,<y>,<x^2>,<y^2>, z-independence",
        "GaussianBeamAxisymmetric": "pulse_energy x pulse_length x stddev_waist x waist_z x laser_wavelength, 7 stations incl. waist and waist +-0.4; "
                                    "integral, axisymmetry, width at waist, symmetry about waist, monotone in |z-waist| and in wavelength",
        "TrivariateGaussian": "pulse_energy x pulse_length x stddev_x x stddev_y x mean_z, 7 stations (mean_z + k c tau, 0, 1); cross-section integral, "
                              "transverse moments, volume integral, <z>, var z",
        "UniformEnergyDensity": "energy_density x radius x length; constant value at 27 points in/outside the cylinder",
        "polarisation": "6 (non unit) vectors x 4 classes: get_polarization = v/|v|, get_pointing = (0,0,1)",
        "values": {"quick": "E in {0.3,5}, tau in {1e-9,1}, sigma in {5e-3,2e-2}, waist sigma in {1e-4,5e-3,2e-2}, waist z in {-0.5,0,0.7}, "
                            "lambda in {532,1064}, mean_z in {-1,0.5}",
                   "thorough": "E in {0.3,1,5}, tau in {1e-9,1e-8,1}, sigma in {1e-3,5e-3,2e-2}, waist sigma in {1e-4,1e-3,5e-3,2e-2}, "
                               "waist z in {-0.5,0,0.7,3}, lambda in {532,694.3,1064}, mean_z in {-1,0,0.5}"},
    },
    "L.segments": "radius in 7 (quick) / 9 (thorough) values x length = 2 r k (k in 10 / 15 values incl. <1) x {exact, +-1ulp, x(1+-1e-9), x(1+-1e-6)} "
                  "x {generate_segmented_cylinder, 4 profile classes, Laser.get_geometry}",
    "L.spectra": {"ConstantSpectrum": "(min,max) in 9 ranges (quick) / + the 81 ranges 1000.a..1000.a+0.b (thorough) x bins in {1,2,3,7,13} / 1..16,50,100",
                  "GaussianSpectrum": "4 ranges (thorough 6) x bins x mean in {centre, 0.3 w, lower edge, 2 w below} x stddev in {w/40, w/4, 2 w}"},
    "H.ops": {SHORT[k]: ["%s%s %r" % (n, "" if kd != "bad" else " (rejected value)", v) for n, kd, v in OPS[k]] for k in OPS},
    "H.starts": "0 = default constructor (profiles; model holds the documented defaults) / wide range (spectra); 1 = non-default constructor arguments",
    "H.attachment": "profile detached | profile assigned to Laser(parent=World()).laser_profile (geometry observed through Laser.get_geometry())",
    "H.reads": "bit mask over the positions before each op (all masks up to length 2 (quick) / 3 (thorough); {none, all} for the longest length); always one at the end",
}
BOUND = {
    "quick": "L: quick lattices complete; H: all sequences of length <= 3 over the full op alphabet (valid + rejected values), 2 starts, detached/attached",
    "thorough": "L: thorough lattices complete; H: all sequences of length <= 3 with all read masks, plus all length-4 sequences of valid ops with read masks {none, all}",
}
RULE = ("L: one case per lattice point (profiles: per parameter point, all z stations inside; segments: per (radius, k), all eps variants and sources inside; "
        "spectra: per (range[, mean, stddev]), all bin counts inside); non-trivial = a lattice point whose observable was compared with the closed form, "
        "keyed by the point.  H: one case per (class, start, attachment, length, first op[s]) enumerating all suffixes and read masks; a history is "
        "non-trivial when at least one op changed the model state; keyed by (class, start, attachment, op sequence)")
ASSUMPTIONS = [
    "trapezoid quadrature on a grid of step s/2 and half-extent 10 s (s = measured 1-sigma half width) integrates the profile to rounding error",
    "scipy.special.ndtr, math.exp are accurate to a few ulp; c = 299792458 m/s",
    "the documented constructor defaults and the documented meaning of each setter (sets its own slot, rejects non-positive values) are the model",
    "GaussianBeamAxisymmetric: the Rayleigh-range formula is NOT part of the property; only integral, width at the waist, symmetry and monotonicity are checked",
    "histories use only the object's own public setters; replacing the profile/spectrum on the Laser and ray tracing are C01's laser driver",
    "live-vs-fresh comparison is relative 1e-13 (bit identity expected; the slack only tolerates benign re-association)",
]
REQUIRED_CLASSES = [
    "L:xsec:CBG", "L:xsec:GBA", "L:xsec:TRI", "L:volume:TRI", "L:uniform", "L:polarisation",
    "L:segments:len<2r", "L:segments:len=2rk", "L:segments:len=2rk-eps", "L:segments:len=2rk+eps", "L:segments:via-laser",
    "L:cspec", "L:gspec:spans-line", "L:gspec:partial", "L:gspec:misses-line",
    "H:UED", "H:CBG", "H:TRI", "H:GBA", "H:CS", "H:GS", "H:attached", "H:detached", "H:start0", "H:start1",
    "H:len1", "H:len2", "H:len3", "H:op-after-read-changed-observation", "H:rejected-value-raised", "H:mask-partial",
]
BUDGET_S = {"quick": 600, "thorough": 3600}  # safety caps only (shared machine); idle 16 cores: ~10 s / ~2 min
STATES_MEANING = "L: lattice points; H: distinct model states (class, slot->value dict) reached"


# ----------------------------------------------------------------------------------------------------------------
# case enumeration
# ----------------------------------------------------------------------------------------------------------------
def _lat(tier):
    q = tier == "quick"
    return {
        "E": [0.3, 5.0] if q else [0.3, 1.0, 5.0],
        "tau": [1e-9, 1.0] if q else [1e-9, 1e-8, 1.0],
        "sig": [5e-3, 2e-2] if q else [1e-3, 5e-3, 2e-2],
        "sig0": [1e-4, 5e-3, 2e-2] if q else [1e-4, 1e-3, 5e-3, 2e-2],
        "wz": [-0.5, 0.0, 0.7] if q else [-0.5, 0.0, 0.7, 3.0],
        "lam": [532.0, 1064.0] if q else [532.0, 694.3, 1064.0],
        "mz": [-1.0, 0.5] if q else [-1.0, 0.0, 0.5],
        "seg_r": [0.05, 0.01, 0.3, 1.0 / 3.0, 0.07, 0.5, 1e-3] + ([] if q else [0.025, 0.11]),
        "seg_k": [0.25, 0.5, 0.999, 1.0, 1.5, 2.0, 3.0, 5.0, 7.0, 10.0] + ([] if q else [1.999, 2.5, 4.0, 13.0, 25.0]),
        "bins": [1, 2, 3, 7, 13] if q else list(range(1, 17)) + [50, 100],
        "cs_ranges": [(1000.3, 1000.9), (1063.9, 1064.1), (1059.0, 1061.0), (500.0, 700.0), (1000.1, 1000.7), (532.05, 532.15),
                      (1064.0, 1064.3), (999.7, 1000.3), (0.001, 0.002)]
                     + ([] if q else [(1000.0 + a / 10.0, 1000.0 + a / 10.0 + b / 10.0) for a in range(1, 10) for b in range(1, 10)]),
        "gs_ranges": [(1063.0, 1065.0), (1000.3, 1000.9), (532.05, 532.15), (500.0, 700.0)] + ([] if q else [(1063.9, 1064.1), (999.7, 1000.3)]),
    }


def _hist_cases(tier):
    out = []
    maxlen = 3
    for key in PROFILE_KEYS + SPECTRUM_KEYS:
        nops = len(OPS[key])
        valid = [i for i, o in enumerate(OPS[key]) if o[1] != "bad"]
        for start in (0, 1):
            for att in ((0, 1) if key in PROFILE_KEYS else (0,)):
                for k in range(1, maxlen + 1):
                    full = (k <= 2) if tier == "quick" else True
                    for first in range(nops):
                        out.append({"kind": "hist", "cls": key, "start": start, "att": att, "len": k, "prefix": [first],
                                    "ops": "all", "masks": "full" if full else "ends", "label": "hist:%s" % key})
                if tier == "thorough":
                    for a in valid:
                        for b in valid:
                            out.append({"kind": "hist", "cls": key, "start": start, "att": att, "len": 4, "prefix": [a, b],
                                        "ops": "valid", "masks": "ends", "label": "hist:%s" % key})
    return out


def cases(tier):
    L = _lat(tier)
    out = []
    for E, tau, sx, sy in itertools.product(L["E"], L["tau"], L["sig"], L["sig"]):
        out.append({"kind": "xsec", "cls": "CBG", "label": "xsec:CBG",
                    "p": {"pulse_energy": E, "pulse_length": tau, "stddev_x": sx, "stddev_y": sy}})
    for E, tau, s0, wz in itertools.product(L["E"], L["tau"], L["sig0"], L["wz"]):
        out.append({"kind": "xsec", "cls": "GBA", "label": "xsec:GBA", "lams": L["lam"],
                    "p": {"pulse_energy": E, "pulse_length": tau, "stddev_waist": s0, "waist_z": wz}})
    for E, tau, sx, sy, mz in itertools.product(L["E"], L["tau"], L["sig"], L["sig"], L["mz"]):
        out.append({"kind": "xsec", "cls": "TRI", "label": "xsec:TRI",
                    "p": {"pulse_energy": E, "pulse_length": tau, "stddev_x": sx, "stddev_y": sy, "mean_z": mz}})
    for eps, r, ln in itertools.product(L["E"], [0.05, 0.3], [0.12, 2.0]):
        out.append({"kind": "uniform", "label": "uniform", "p": {"energy_density": eps, "laser_radius": r, "laser_length": ln}})
    for key in PROFILE_KEYS:
        for v in [(0.0, 1.0, 0.0), (1.0, 0.0, 0.0), (0.0, 3.0, 4.0), (1.0, 1.0, 1.0), (0.0, 0.0, 2.0), (-2.0, 0.0, 1e-3)]:
            out.append({"kind": "polar", "cls": key, "v": list(v), "label": "polar"})
    for r in L["seg_r"]:
        for k in L["seg_k"]:
            out.append({"kind": "seg", "r": r, "k": k, "label": "seg"})
    for mn, mx in L["cs_ranges"]:
        out.append({"kind": "cspec", "mn": mn, "mx": mx, "bins": L["bins"], "label": "cspec"})
    for mn, mx in L["gs_ranges"]:
        w = mx - mn
        for mpos, mean in (("centre", 0.5 * (mn + mx)), ("0.3w", mn + 0.3 * w), ("edge", mn), ("outside", mn - 2 * w)):
            for spos, sd in (("w/40", w / 40.0), ("w/4", w / 4.0), ("2w", 2.0 * w)):
                out.append({"kind": "gspec", "mn": mn, "mx": mx, "bins": L["bins"], "mean": mean, "stddev": sd,
                            "mpos": mpos, "spos": spos, "label": "gspec"})
    out += _hist_cases(tier)
    return out


def crash_label(case):
    return case.get("label", case.get("kind", "case"))


# ----------------------------------------------------------------------------------------------------------------
# helpers
# ----------------------------------------------------------------------------------------------------------------
class _Res:
    def __init__(self):
        self.viol, self.classes, self.states, self.nontrivial = [], [], [], []
        self.n = 0
        self.transitions = 0
        self._seen = set()

    def V(self, sig, what, expected, observed):
        sig = "C18:" + sig
        if sig in self._seen:  # one entry per signature and case
            return
        self._seen.add(sig)
        self.viol.append({"sig": sig, "what": what, "expected": expected, "observed": observed})

    def out(self, outcome):
        return {"viol": self.viol, "classes": self.classes, "states": self.states, "nontrivial": self.nontrivial,
                "n": max(self.n, 1), "transitions": max(self.transitions, 1), "outcome": outcome}


def _rel(a, b, tol, floor=0.0):
    if a != a or b != b:
        return False
    return abs(a - b) <= tol * max(abs(a), abs(b)) + floor


def _cls(key):
    import cherab.core.model.laser as m
    return getattr(m, SHORT[key])


def _vec(t):
    from raysect.optical import Vector3D
    return Vector3D(float(t[0]), float(t[1]), float(t[2]))


def _kwargs(key, cfg):
    kw = dict(cfg)
    if "polarization" in kw:
        kw["polarization"] = _vec(kw["polarization"])
    return kw


def _seg_summary(segs, full=True):
    """(radius, height, z offset, transform is a pure translation along z) per segment; full=False looks only at the
    diagonal and the x/y offsets (the history observations, where speed matters)."""
    out = []
    for s in segs:
        t = s.transform
        if full:
            pure = all(t[i, j] == (1.0 if i == j else 0.0) for i in range(4) for j in range(4) if not (i == 2 and j == 3))
        else:
            pure = t[0, 3] == 0.0 and t[1, 3] == 0.0 and t[0, 0] == 1.0 and t[1, 1] == 1.0 and t[2, 2] == 1.0
        out.append((float(s.radius), float(s.height), float(t[2, 3]), bool(pure)))
    return out


def _zclass(z, length=1.0):
    return "z<0" if z < 0 else ("z>length" if z > length else "inside")


# ----------------------------------------------------------------------------------------------------------------
# engine L: profiles
# ----------------------------------------------------------------------------------------------------------------
def _run_xsec(case, R):
    from mc.refs import laser_ref as ref
    key, p = case["cls"], case["p"]
    name = SHORT[key]
    E, tau = p["pulse_energy"], p["pulse_length"]
    lin = E / (ref.C_LIGHT * tau)  # documented: energy per unit length of a pulse-averaged profile
    R.classes.append("L:xsec:" + key)

    def measure(f, z, tag):
        """half widths, integral and moments of the cross-section at z; None (and a violation) if it is not a decaying bump."""
        sx = ref.half_width(lambda r: f(r, 0.0, z))
        sy = ref.half_width(lambda r: f(0.0, r, z))
        if sx is None or sy is None:
            R.V("%s:cross-section:not-a-decaying-profile:%s" % (name, tag), "%s(%r): f(r,0,z)/f(0,0,z) never reaches exp(-1/2) at z=%r" % (name, p, z),
                "a transverse Gaussian", {"sx": sx, "sy": sy, "f0": f(0.0, 0.0, z)})
            return None
        R.n += 1
        return (sx, sy) + ref.moments_xy(f, z, sx, sy)

    def centred(mx, my, sx, sy, z, tag):
        if abs(mx) > 1e-9 * sx or abs(my) > 1e-9 * sy:
            R.V("%s:cross-section:not-centred-on-axis:%s" % (name, tag), "%s(%r) z=%r: first moments" % (name, p, z), [0.0, 0.0], [mx, my])

    if key == "CBG":
        prof = _cls(key)(laser_radius=0.05, laser_length=1.0, **p)
        f = prof.get_energy_density
        R.states.append(("CBG", tuple(sorted(p.items()))))
        R.nontrivial.append(("CBG", tuple(sorted(p.items()))))
        for nme in p:
            if getattr(prof, nme) != p[nme]:
                R.V("%s:constructor:reported-%s" % (name, nme), "%s(%r).%s" % (name, p, nme), p[nme], getattr(prof, nme))
        f0 = None
        for z in [-1.0, 0.0, 0.3, 0.7, 1.0, 1.5, 10.0]:
            tag = _zclass(z)
            m = measure(f, z, tag)
            if m is None:
                continue
            sx, sy, i0, mxx, myy, mx, my = m
            if not _rel(i0, lin, 1e-10):
                R.V("%s:cross-section-integral:%s" % (name, tag), "%s(%r): integral of the energy density over the plane z=%r" % (name, p, z), lin, i0)
            if not _rel(mxx, p["stddev_x"] ** 2, 1e-9):
                R.V("%s:cross-section:var-x!=stddev_x^2:%s" % (name, tag), "%s(%r) z=%r: <x^2>" % (name, p, z), p["stddev_x"] ** 2, mxx)
            if not _rel(myy, p["stddev_y"] ** 2, 1e-9):
                R.V("%s:cross-section:var-y!=stddev_y^2:%s" % (name, tag), "%s(%r) z=%r: <y^2>" % (name, p, z), p["stddev_y"] ** 2, myy)
            centred(mx, my, sx, sy, z, tag)
            v = f(0.0, 0.0, z)
            if f0 is None:
                f0 = v
            elif not _rel(v, f0, 1e-14):
                R.V("%s:energy-density-depends-on-z" % name, "%s(%r): on-axis value at z=%r vs z=-1" % (name, p, z), f0, v)
        return ("CBG", len(R.viol))

    if key == "GBA":
        z0, s0 = p["waist_z"], p["stddev_waist"]
        stations = [z0, z0 - 0.4, z0 + 0.4, z0 + 1.3, -1.0, 0.25, 10.0]
        prev_lam = None
        for lam in case["lams"]:
            kw = dict(p, laser_wavelength=lam)
            prof = _cls(key)(laser_radius=0.05, laser_length=1.0, **kw)
            f = prof.get_energy_density
            R.states.append(("GBA", tuple(sorted(kw.items()))))
            R.nontrivial.append(("GBA", tuple(sorted(kw.items()))))
            for nme in kw:
                if getattr(prof, nme) != kw[nme]:
                    R.V("%s:constructor:reported-%s" % (name, nme), "%s(%r).%s" % (name, kw, nme), kw[nme], getattr(prof, nme))
            var = {}
            for z in stations:
                tag = "z=waist" if z == z0 else "z!=waist"
                m = measure(f, z, tag)
                if m is None:
                    continue
                sx, sy, i0, mxx, myy, mx, my = m
                var[z] = mxx
                if not _rel(i0, lin, 1e-10):
                    R.V("%s:cross-section-integral:%s" % (name, tag), "%s(%r): integral of the energy density over the plane z=%r" % (name, kw, z), lin, i0)
                if not _rel(mxx, myy, 1e-9):
                    R.V("%s:cross-section:not-axisymmetric:%s" % (name, tag), "%s(%r) z=%r: <x^2> vs <y^2>" % (name, kw, z), mxx, myy)
                centred(mx, my, sx, sy, z, tag)
                if z == z0 and not _rel(mxx, s0 * s0, 1e-9):
                    R.V("%s:cross-section:var-at-waist!=stddev_waist^2" % name, "%s(%r) z=waist_z: <x^2>" % (name, kw), s0 * s0, mxx)
            if len(var) == len(stations):
                if not _rel(var[z0 - 0.4], var[z0 + 0.4], 1e-9):
                    R.V("%s:width-not-symmetric-about-waist_z" % name, "%s(%r): <x^2> at waist_z-0.4 vs waist_z+0.4" % (name, kw), var[z0 - 0.4], var[z0 + 0.4])
                order = sorted(stations, key=lambda z: abs(z - z0))
                for a, b in zip(order, order[1:]):
                    if var[b] < var[a] * (1 - 1e-9):
                        R.V("%s:width-not-monotone-in-distance-from-waist_z" % name, "%s(%r): <x^2> at z=%r (nearer) vs z=%r (farther)" % (name, kw, a, b),
                            ">= %r" % var[a], var[b])
                if prev_lam is not None:
                    for z in stations:
                        if z != z0 and var[z] < prev_lam[1][z] * (1 - 1e-9):
                            R.V("%s:width-not-monotone-in-laser_wavelength" % name, "%s(%r): <x^2> at z=%r for lambda=%r vs lambda=%r" % (name, p, z, lam, prev_lam[0]),
                                ">= %r" % prev_lam[1][z], var[z])
                    if s0 <= 1e-4 and not var[z0 + 1.3] > 1.01 * prev_lam[1][z0 + 1.3]:
                        R.V("%s:laser_wavelength-has-no-effect-on-divergence" % name, "%s(%r): <x^2> at waist_z+1.3 for lambda=%r vs %r" % (name, p, lam, prev_lam[0]),
                            "> %r" % prev_lam[1][z0 + 1.3], var[z0 + 1.3])
                prev_lam = (lam, var)
        return ("GBA", len(R.viol))

    # TRI
    mu = p["mean_z"]
    sz_doc = ref.C_LIGHT * tau  # documented: sigma_z = tau c
    prof = _cls(key)(laser_radius=0.05, laser_length=1.0, **p)
    f = prof.get_energy_density
    R.states.append(("TRI", tuple(sorted(p.items()))))
    R.nontrivial.append(("TRI", tuple(sorted(p.items()))))
    for nme in p:
        if getattr(prof, nme) != p[nme]:
            R.V("%s:constructor:reported-%s" % (name, nme), "%s(%r).%s" % (name, p, nme), p[nme], getattr(prof, nme))
    for k in (-3.0, -1.0, 0.0, 0.5, 2.0, None, "L"):
        z = 0.0 if k is None else (1.0 if k == "L" else mu + k * sz_doc)
        tag = "z=mean_z" if k == 0.0 else ("z=absolute" if k in (None, "L") else "z=mean_z+k*c*tau")
        m = measure(f, z, tag)
        if m is None:
            continue
        sx, sy, i0, mxx, myy, mx, my = m
        exp_lin = E * ref.normal_pdf(z, mu, sz_doc)
        if not _rel(i0, exp_lin, 1e-10):
            R.V("%s:cross-section-integral:%s" % (name, tag), "%s(%r): integral over the plane z=%r = E_p N(z; mean_z, c tau)" % (name, p, z), exp_lin, i0)
        if not _rel(mxx, p["stddev_x"] ** 2, 1e-9):
            R.V("%s:cross-section:var-x!=stddev_x^2:%s" % (name, tag), "%s(%r) z=%r: <x^2>" % (name, p, z), p["stddev_x"] ** 2, mxx)
        if not _rel(myy, p["stddev_y"] ** 2, 1e-9):
            R.V("%s:cross-section:var-y!=stddev_y^2:%s" % (name, tag), "%s(%r) z=%r: <y^2>" % (name, p, z), p["stddev_y"] ** 2, myy)
        centred(mx, my, sx, sy, z, tag)
    # full volume
    R.classes.append("L:volume:TRI")
    sx = ref.half_width(lambda r: f(r, 0.0, mu))
    sy = ref.half_width(lambda r: f(0.0, r, mu))
    sz = ref.half_width(lambda r: f(0.0, 0.0, mu + r))
    szm = ref.half_width(lambda r: f(0.0, 0.0, mu - r))
    if None in (sx, sy, sz, szm):
        R.V("%s:volume:not-a-decaying-profile" % name, "%s(%r): no 1-sigma half width around (0,0,mean_z)" % (name, p), "a Gaussian bump at mean_z", [sx, sy, sz, szm])
    else:
        R.n += 1
        i0, m1, var = ref.moments_xyz(f, mu, sx, sy, sz)
        if not _rel(i0, E, 1e-10):
            R.V("%s:volume-integral" % name, "%s(%r): integral of the energy density over all space" % (name, p), E, i0)
        if abs(m1 - mu) > 1e-9 * sz_doc:
            R.V("%s:volume:mean-z!=mean_z" % name, "%s(%r): <z>" % (name, p), mu, m1)
        if not _rel(var, sz_doc ** 2, 1e-9):
            R.V("%s:volume:var-z!=(c*pulse_length)^2" % name, "%s(%r): var z" % (name, p), sz_doc ** 2, var)
    return ("TRI", len(R.viol))


def _run_uniform(case, R):
    p = case["p"]
    name = SHORT["UED"]
    prof = _cls("UED")(**p)
    R.classes.append("L:uniform")
    R.states.append(("UED", tuple(sorted(p.items()))))
    R.nontrivial.append(("UED", tuple(sorted(p.items()))))
    r, ln = p["laser_radius"], p["laser_length"]
    for nme in p:
        if getattr(prof, nme) != p[nme]:
            R.V("%s:constructor:reported-%s" % (name, nme), "%s(%r).%s" % (name, p, nme), p[nme], getattr(prof, nme))
    for x, y, z in itertools.product((0.0, 0.6 * r, -3 * r), (0.0, -0.6 * r, 2 * r), (-0.5, 0.5 * ln, 2 * ln)):
        R.n += 1
        v = prof.get_energy_density(x, y, z)
        if v != p["energy_density"]:
            inside = (x * x + y * y <= r * r) and 0 <= z <= ln
            R.V("%s:energy-density!=energy_density:%s" % (name, "inside" if inside else "outside"), "%s(%r).get_energy_density(%r,%r,%r)" % (name, p, x, y, z),
                p["energy_density"], v)
    return ("UED", len(R.viol))


def _run_polar(case, R):
    key, v = case["cls"], case["v"]
    name = SHORT[key]
    R.classes.append("L:polarisation")
    R.states.append(("pol", key, tuple(v)))
    R.nontrivial.append(("pol", key, tuple(v)))
    nrm = math.sqrt(v[0] ** 2 + v[1] ** 2 + v[2] ** 2)
    exp = [c / nrm for c in v]
    prof = _cls(key)(polarization=_vec(v))
    for pt in OBS_POINTS[:3]:
        R.n += 1
        o = prof.get_polarization(*pt)
        o = [o.x, o.y, o.z]
        if any(abs(a - b) > 4e-16 for a, b in zip(o, exp)):
            R.V("%s:get_polarization!=normalised-vector" % name, "%s(polarization=%r).get_polarization%r" % (name, v, pt), exp, o)
        o = prof.get_pointing(*pt)
        o = [o.x, o.y, o.z]
        if o != [0.0, 0.0, 1.0]:
            R.V("%s:get_pointing!=+z" % name, "%s().get_pointing%r" % (name, pt), [0.0, 0.0, 1.0], o)
    return ("pol", key, len(R.viol))


def _run_seg(case, R):
    from mc.refs import laser_ref as ref
    from raysect.optical import World
    from cherab.core.laser import Laser
    from cherab.core.model.laser.profile import generate_segmented_cylinder
    r, k = case["r"], case["k"]
    base = 2.0 * r * k
    variants = [("exact", base), ("-ulp", math.nextafter(base, 0.0)), ("+ulp", math.nextafter(base, math.inf)),
                ("-1e-9", base * (1 - 1e-9)), ("+1e-9", base * (1 + 1e-9)), ("-1e-6", base * (1 - 1e-6)), ("+1e-6", base * (1 + 1e-6))]
    for vname, length in variants:
        if length < 2.0 * r:
            lab = "len<2r"
        elif vname == "exact":
            lab = "len=2rk"
        else:
            lab = "len=2rk-eps" if vname[0] == "-" else "len=2rk+eps"
        R.classes.append("L:segments:" + lab)
        R.states.append(("seg", r, length))
        R.nontrivial.append(("seg", r, length))
        sources = [("generate_segmented_cylinder", lambda: generate_segmented_cylinder(r, length))]
        for key in PROFILE_KEYS:
            sources.append((SHORT[key] + ".generate_geometry", (lambda key=key: _cls(key)(laser_radius=r, laser_length=length).generate_geometry())))

        def via_laser():
            w = World()
            las = Laser(parent=w)
            prof = _cls("CBG")()
            las.laser_profile = prof
            prof.laser_radius = r
            prof.laser_length = length
            g = las.get_geometry()
            if any(s.parent is not las for s in g) or len(las.children) != len(g):
                R.V("Laser.get_geometry:segments-not-children-of-laser:" + lab, "profile attached, then radius=%r length=%r" % (r, length),
                    "every segment parented to the laser, no other children", [len(las.children), len(g)])
            return g
        sources.append(("Laser.get_geometry", via_laser))
        R.classes.append("L:segments:via-laser")
        base_err = None  # what the module function did wrong for this (radius, length): the classes delegate to it,
        for sname, fn in sources:  # so the same failure seen through a class is the same defect and is not repeated
            R.n += 1
            try:
                segs = _seg_summary(fn())
            except Exception as e:  # noqa
                err = ("raises:" + type(e).__name__, "a list of cylinders", repr(e))
                segs = []
            else:
                errs = ref.tiling_errors(segs, r, length)
                err = errs[0] if errs else None  # first failure only (start, gap/overlap, end, total are consequences of each other)
            if sname == "generate_segmented_cylinder":
                base_err = err
            elif err is not None and base_err is not None and err[0] == base_err[0]:
                continue
            if err is not None:
                R.V("%s:tiling:%s:%s" % (sname, err[0], lab), "radius=%r length=%r (=2r*%r %s): segments (radius,height,z) = %r" % (r, length, k, vname, [s[:3] for s in segs][:6]),
                    err[1], err[2])
    return ("seg", len(R.viol))


# ----------------------------------------------------------------------------------------------------------------
# engine L: spectra
# ----------------------------------------------------------------------------------------------------------------
def _check_spectrum(R, name, kind, spec, mn, mx, bins, mean, stddev, lab):
    from mc.refs import laser_ref as ref
    rf = ref.spectrum_reference(kind, mn, mx, bins, mean, stddev)
    args = "(%r, %r, %r%s)" % (mn, mx, bins, "" if kind == "constant" else ", %r, %r" % (mean, stddev))
    R.n += 1
    acc = [("min_wavelength", spec.min_wavelength, mn), ("max_wavelength", spec.max_wavelength, mx), ("bins", spec.bins, bins),
           ("get_min_wavelenth", spec.get_min_wavelenth(), mn), ("get_max_wavelenth", spec.get_max_wavelenth(), mx),
           ("get_spectral_bins", spec.get_spectral_bins(), bins)]
    if kind != "constant":
        acc += [("mean", spec.mean, mean), ("stddev", spec.stddev, stddev)]
    for nme, obs, expd in acc:
        if obs != expd:
            R.V("LaserSpectrum.%s:returns-other-than-%s" % (nme, {"get_min_wavelenth": "min_wavelength", "get_max_wavelenth": "max_wavelength",
                                                                 "get_spectral_bins": "bins"}.get(nme, "constructor-argument")),
                "%s%s.%s" % (name, args, nme + ("()" if nme.startswith("get_") else "")), expd, obs)
    for nme, obs in (("delta_wavelength", spec.delta_wavelength), ("get_delta_wavelength", spec.get_delta_wavelength())):
        if not _rel(obs, rf["delta"], 1e-14):
            R.V("LaserSpectrum.%s!=(max-min)/bins" % nme, "%s%s.%s" % (name, args, nme), rf["delta"], obs)
    wl = [float(x) for x in spec.wavelengths]
    psd = [float(x) for x in spec.power_spectral_density]
    if len(wl) != bins or len(psd) != bins:
        R.V("%s:array-length!=bins" % name, "%s%s" % (name, args), bins, [len(wl), len(psd)])
        return
    if any(abs(a - b) > 1e-14 * mx for a, b in zip(wl, rf["centres"])):
        R.V("%s:wavelengths!=bin-centres" % name, "%s%s.wavelengths" % (name, args), rf["centres"][:8], wl[:8])
    # per-bin power.  Tolerance: relative 1e-9 of the largest bin power (the bin edges are accumulated in double
    # precision: <= bins * ulp(max) ~ 1e-11 nm, times a density <= 0.4/stddev) plus 4e-16 absolute (a bin power is the
    # difference of two CDF values in [0,1], each rounded to ulp(1) = 2.2e-16, as the override documents).
    d = rf["delta"]
    power = [v * d for v in psd]
    peak = max(rf["power"])
    tol = 1e-9 * peak + 4e-16
    badbins = [i for i in range(bins) if not abs(power[i] - rf["power"][i]) <= tol]
    for i in badbins[:1] + badbins[-1:]:
        # first / last / only bin share one label: their outer edge is the edge of the range (same failure class)
        pos = "edge-bin" if i in (0, bins - 1) else "interior-bin"
        ratio = power[i] / rf["power"][i] if rf["power"][i] > 0 else float("inf")
        how = "half-of-expected" if abs(ratio - 0.5) < 1e-9 else ("zero" if power[i] == 0 else "other-value")
        # constant spectrum: label = how the value is wrong; Gaussian: label = where the line sits in the range
        R.V("%s:bin-power:%s:%s" % (name, pos, ("zero" if how == "zero" else how) if kind == "constant" else lab),
            "%s%s: power_spectral_density[%d]*delta_wavelength vs integral of the unit-power density over bin %d of %d" % (name, args, i, i, bins),
            rf["power"][i], power[i])
    total_ref = 1.0 if (kind == "constant" or lab == "spans-line") else None
    if not badbins and total_ref is not None and not _rel(math.fsum(power), total_ref, 1e-12 * max(bins, 1)):
        R.V("%s:total-power!=1" % name, "%s%s: sum(psd)*delta" % (name, args), 1.0, math.fsum(power))
    # the density itself (Function1D call) is the documented unit-power density
    xs = [mn, 0.5 * (mn + mx), mx, math.nextafter(mn, 0.0), math.nextafter(mx, math.inf)] + ([] if kind == "constant" else [mean, mean + stddev, mean - 3 * stddev])
    for x in xs:
        o = spec(x)
        e = ref.density_reference(kind, x, mn, mx, mean, stddev)
        if not _rel(o, e, 1e-12, 1e-300):
            R.V("%s:density!=documented-unit-power-density" % name, "%s%s(%r)" % (name, args, x), e, o)


def _run_cspec(case, R):
    mn, mx = case["mn"], case["mx"]
    R.classes.append("L:cspec")
    for bins in case["bins"]:
        R.states.append(("cs", mn, mx, bins))
        R.nontrivial.append(("cs", mn, mx, bins))
        spec = _cls("CS")(mn, mx, bins)
        _check_spectrum(R, SHORT["CS"], "constant", spec, mn, mx, bins, None, None, "")
    return ("cs", len(R.viol))


def _run_gspec(case, R):
    mn, mx, mean, sd = case["mn"], case["mx"], case["mean"], case["stddev"]
    if mn <= mean - 8.5 * sd and mx >= mean + 8.5 * sd:
        lab = "spans-line"
    elif mean + 8.0 * sd < mn or mean - 8.0 * sd > mx:
        lab = "misses-line"
    else:
        lab = "partial"
    R.classes.append("L:gspec:" + lab)
    for bins in case["bins"]:
        R.states.append(("gs", mn, mx, bins, mean, sd))
        R.nontrivial.append(("gs", mn, mx, bins, mean, sd))
        try:
            spec = _cls("GS")(mn, mx, bins, mean, sd)
        except Exception as e:  # noqa - valid parameters: the constructor must not fail
            R.V("%s:construct:%s:raises:%s" % (SHORT["GS"], lab, type(e).__name__), "GaussianSpectrum(%r, %r, %r, mean=%r, stddev=%r) raised" % (mn, mx, bins, mean, sd),
                "a spectrum object", "%s: %s" % (type(e).__name__, str(e)[:120]))
            continue
        _check_spectrum(R, SHORT["GS"], "gaussian", spec, mn, mx, bins, mean, sd, lab)
    return ("gs", lab, len(R.viol))


# ----------------------------------------------------------------------------------------------------------------
# engine H
# ----------------------------------------------------------------------------------------------------------------
_FRESH = {}


def _start_cfg(key, start):
    if key in PROFILE_KEYS:
        return dict(DEFAULTS[key] if start == 0 else START1[key])
    return dict(START0_SPEC[key] if start == 0 else START1[key])


def _build(key, cfg, att, default_ctor=False):
    """returns (object, keepalive).  default_ctor: call the constructor without arguments (start 0 of the profiles)."""
    cls = _cls(key)
    obj = cls() if default_ctor else cls(**_kwargs(key, cfg))
    keep = None
    if att:
        from raysect.optical import World
        from cherab.core.laser import Laser
        w = World()
        las = Laser(parent=w)
        las.laser_profile = obj
        keep = (w, las)
    return obj, keep


def _g(fn):
    try:
        return fn()
    except Exception as e:  # noqa
        return ["EXC:" + type(e).__name__]


def _observe(key, obj, keep):
    groups = []
    if key in PROFILE_KEYS:
        for nme in DEFAULTS[key]:
            if nme != "polarization":
                groups.append(("param:" + nme, _g(lambda: [float(getattr(obj, nme))])))
        # (the first point is sampled once more at the end: the next observation then starts at the point sampled last, so a value
        #  remembered per "last point" across a parameter change is seen)
        groups.append(("energy_density", _g(lambda: [obj.get_energy_density(*p) for p in OBS_POINTS + OBS_POINTS[:1]])))

        def vecs(fn):
            out = []
            for p in OBS_POINTS[:2]:
                v = fn(*p)
                out += [v.x, v.y, v.z]
            return out
        groups.append(("polarization", _g(lambda: vecs(obj.get_polarization))))
        groups.append(("pointing", _g(lambda: vecs(obj.get_pointing))))

        def geom(segs, las=None):
            out = [float(len(segs))]
            for s in _seg_summary(segs, full=False):
                out += [s[0], s[1], s[2], 1.0 if s[3] else 0.0]
            if las is not None:
                out += [float(len(las.children))] + [1.0 if s.parent is las else 0.0 for s in segs]
            return out
        groups.append(("generate_geometry", _g(lambda: geom(obj.generate_geometry()))))
        if keep is not None:
            groups.append(("Laser.get_geometry", _g(lambda: geom(keep[1].get_geometry(), keep[1]))))
    else:
        names = ["min_wavelength", "max_wavelength", "bins", "delta_wavelength"] + (["mean", "stddev"] if key == "GS" else [])
        for nme in names:
            groups.append(("param:" + nme, _g(lambda: [float(getattr(obj, nme))])))
        for nme in ("get_min_wavelenth", "get_max_wavelenth", "get_spectral_bins", "get_delta_wavelength"):
            groups.append((nme, _g(lambda: [float(getattr(obj, nme)())])))
        groups.append(("wavelengths", _g(lambda: [float(x) for x in obj.wavelengths])))
        groups.append(("power_spectral_density", _g(lambda: [float(x) for x in obj.power_spectral_density])))
        groups.append(("density", _g(lambda: [obj(x) for x in OBS_WVL])))
    return groups


def _fresh_obs(key, cfg, att):
    from mc.engine_h import canon
    k = (key, att, canon(cfg))
    o = _FRESH.get(k)
    if o is None:
        obj, keep = _build(key, cfg, att)
        o = _observe(key, obj, keep)
        if len(_FRESH) > 200000:
            _FRESH.clear()
        _FRESH[k] = o
    return o


def _apply(key, obj, op, keep=None):
    """apply one op to the live object; returns the exception type name or None."""
    nme, kind, val = op
    try:
        if kind == "reattach":
            if keep is not None:
                keep[1].laser_profile = obj
        elif kind == "pol":
            obj.set_polarization(_vec(val))
        else:
            setattr(obj, nme, val)
    except Exception as e:  # noqa
        return type(e).__name__
    return None


def _model_apply(cfg, op):
    nme, kind, val = op
    if kind in ("bad", "reattach"):
        return False
    slot = "polarization" if kind == "pol" else nme
    val = tuple(val) if kind == "pol" else val
    changed = cfg[slot] != val
    cfg[slot] = val
    return changed


def _diff(live, fresh):
    if live == fresh:  # bit-identical (the expected situation)
        return []
    from mc.engine_h import diff_groups
    return diff_groups(live, fresh, rtol=1e-13)


_BLAME = {}


def _blame(key, start, att, seq):
    k = (key, start, att, tuple(seq))
    r = _BLAME.get(k)
    if r is None:
        if len(_BLAME) > 100000:
            _BLAME.clear()
        r = _BLAME[k] = _blame_replay(key, start, att, seq)
    return r


def _blame_replay(key, start, att, seq):
    """Replay with an observation after every op; returns (index of the first op after which live != fresh or -1 for
    'already after construction' or None, bad groups, live groups, fresh groups)."""
    cfg = _start_cfg(key, start)
    obj, keep = _build(key, cfg, att, default_ctor=(start == 0 and key in PROFILE_KEYS))
    lo, fo = _observe(key, obj, keep), _fresh_obs(key, cfg, att)
    bad = _diff(lo, fo)
    if bad:
        return -1, bad, lo, fo
    for i, oi in enumerate(seq):
        op = OPS[key][oi]
        _apply(key, obj, op, keep)
        _model_apply(cfg, op)
        lo, fo = _observe(key, obj, keep), _fresh_obs(key, cfg, att)
        bad = _diff(lo, fo)
        if bad:
            return i, bad, lo, fo
    return None, [], None, None


def _opname(op):
    return op[0]


def _describe(key, start, att, seq, mask):
    parts = ["%s(%s)%s" % (SHORT[key], "" if (start == 0 and key in PROFILE_KEYS) else "start%d args" % start, " attached to Laser" if att else "")]
    for i, oi in enumerate(seq):
        if mask >> i & 1:
            parts.append("read")
        n, kd, v = OPS[key][oi]
        parts.append(("set_polarization(%r)" % (v,)) if kd == "pol" else "%s=%r" % (n, v))
    parts.append("read")
    return "; ".join(parts)


def _report_divergence(R, key, start, att, seq, mask, idx, bad, lo, fo, note):
    desc = _describe(key, start, att, seq, mask)
    lod, fod = dict(lo), dict(fo)
    for g in bad:
        if idx == -1:
            sig = "%s:default-constructor!=documented-defaults:%s" % (SHORT[key], g)
        else:
            op = OPS[key][seq[idx]]
            sig = "%s.%s:%s:%s" % (SHORT[key], _opname(op), "rejected-value-changes-state" if op[1] == "bad" else "stale", g)
        R.V(sig, desc + "  [first divergence after op #%d]%s" % (idx + 1, note), {"fresh object " + g: fod.get(g)}, {"live object " + g: lod.get(g)})


def _run_history(key, start, att, seq, mask, R):
    cfg = _start_cfg(key, start)
    obj, keep = _build(key, cfg, att, default_ctor=(start == 0 and key in PROFILE_KEYS))
    from mc.engine_h import canon
    changed_any = False
    mismatch = None
    read_then_change = False
    for i, oi in enumerate(seq):
        op = OPS[key][oi]
        did_read = bool(mask >> i & 1)
        if did_read and mismatch is None:
            bad = _diff(_observe(key, obj, keep), _fresh_obs(key, cfg, att))
            if bad:
                mismatch = bad
        exc = _apply(key, obj, op, keep)
        R.transitions += 1
        if op[1] == "bad":
            if exc is None:
                R.V("%s.%s:rejected-value-accepted" % (SHORT[key], _opname(op)), _describe(key, start, att, seq[:i + 1], mask), "ValueError", "no exception")
            elif exc != "ValueError":
                R.V("%s.%s:rejected-value:raises-%s" % (SHORT[key], _opname(op), exc), _describe(key, start, att, seq[:i + 1], mask), "ValueError", exc)
            else:
                R.classes.append("H:rejected-value-raised")
        elif exc is not None:
            # a valid value was refused.  If the object had already diverged from its model earlier in this history
            # (e.g. a rejected value left behind), this is a consequence of that divergence and is reported under
            # the signature of the op that caused it; otherwise it is a defect of this setter.
            R.n += 1
            idx, bad, lo, fo = _blame(key, start, att, seq[:i])
            if idx is None:
                R.V("%s.%s:valid-value-raises:%s" % (SHORT[key], _opname(op), exc), _describe(key, start, att, seq[:i + 1], mask), "accepted", exc)
            else:
                _report_divergence(R, key, start, att, seq[:i + 1], mask, idx, bad, lo, fo, " [then %s=%r raises %s]" % (op[0], op[2], exc))
            return
        ch = _model_apply(cfg, op)
        changed_any = changed_any or ch
        if ch and did_read:
            read_then_change = True
        R.states.append((key, canon(cfg)))
    if mismatch is None:
        bad = _diff(_observe(key, obj, keep), _fresh_obs(key, cfg, att))
        if bad:
            mismatch = bad
    R.n += 1
    if changed_any:
        R.nontrivial.append((key, start, att, tuple(seq)))
    if read_then_change:
        R.classes.append("H:op-after-read-changed-observation")
    if mismatch:
        R.mism += 1
        idx, bad, lo, fo = _blame(key, start, att, seq)
        desc = _describe(key, start, att, seq, mask)
        if idx is None:
            R.V("%s:read-changes-later-state:%s" % (SHORT[key], mismatch[0]), desc, "same as without the reads", mismatch)
            return
        _report_divergence(R, key, start, att, seq, mask, idx, bad, lo, fo, "")


def _run_hist(case, R):
    key, start, att, k = case["cls"], case["start"], case["att"], case["len"]
    prefix = list(case["prefix"])
    pool = list(range(len(OPS[key]))) if case["ops"] == "all" else [i for i, o in enumerate(OPS[key]) if o[1] != "bad"]
    R.mism = 0
    R.classes += ["H:" + key, "H:attached" if att else "H:detached", "H:start%d" % start, "H:len%d" % k]
    nh = 0
    for suffix in itertools.product(pool, repeat=k - len(prefix)):
        seq = prefix + list(suffix)
        masks = range(1 << k) if case["masks"] == "full" else (0, (1 << k) - 1)
        for mask in masks:
            if 0 < mask < (1 << k) - 1:
                R.classes.append("H:mask-partial")
            _run_history(key, start, att, seq, mask, R)
            nh += 1
    return ("hist", key, start, att, k, nh, R.mism, tuple(sorted(v["sig"] for v in R.viol)))


# ----------------------------------------------------------------------------------------------------------------
def run_case(case):
    R = _Res()
    kind = case["kind"]
    if kind == "xsec":
        oc = _run_xsec(case, R)
    elif kind == "uniform":
        oc = _run_uniform(case, R)
    elif kind == "polar":
        oc = _run_polar(case, R)
    elif kind == "seg":
        oc = _run_seg(case, R)
    elif kind == "cspec":
        oc = _run_cspec(case, R)
    elif kind == "gspec":
        oc = _run_gspec(case, R)
    elif kind == "hist":
        oc = _run_hist(case, R)
    else:
        raise ValueError(kind)
    # the runner counts class labels: keep one of each per case plus their multiplicity folded
    cl = {}
    for c in R.classes:
        cl[c] = cl.get(c, 0) + 1
    R.classes = [c for c in cl]
    R.states = list(set(R.states))
    return R.out(oc)
