"""C01 laser driver: Plasma + Laser(profile, spectrum, SeldenMatobaThomsonSpectrum)."""
import copy

NAME = "laser"

SLOTS = {
    "plasma": ["P1", "P2"],
    "importance": [1.0, 3.0],
    "lspec": ["S1", "S2"],
    "spec_min": [1058.0, 1050.0],
    "spec_max": [1062.0, 1070.0],
    "spec_bins": [3, 5],
    "gs_mean": [1060.0, 1063.0],
    "gs_stddev": [1.0, 2.5],
    "lprof": ["U", "G"],
    "prof_length": [2.0, 3.0],
    "prof_radius": [0.1, 0.25],
    "prof_energy": [1.0, 2.0],
    "prof_polar": ["y", "x"],
    "g_stddev_x": [0.04, 0.08],
    "g_pulse_length": [1.0, 0.5],
    "models": [["ts"], [], ["ts", "ts"]],
    "models_add": ["ts"],
    "models_clear": [None],
    "integ": [0.05, 0.03],
    "ltr": [0.0, 0.6],
    "lparent": ["world", "mount"],
    "mtr": [0.0, 0.4],
    "p1tr": [0.0, -0.7],
    "p1edist": ["base", "hot"],
}

DEFAULT = dict(plasma="P1", importance=1.0, lspec="S1",
               spec_params={"S1": {"min": 1058.0, "max": 1062.0, "bins": 3}, "S2": {"min": 1055.0, "max": 1065.0, "bins": 4, "mean": 1060.0, "stddev": 1.0}},
               lprof="U",
               prof_params={"U": {"length": 2.0, "radius": 0.1, "energy": 1.0, "polar": "y"},
                            "G": {"length": 2.0, "radius": 0.1, "energy": 1.0, "polar": "y", "stddev_x": 0.04, "stddev_y": 0.05, "pulse_length": 1.0}},
               models=["ts"], integ=0.05, ltr=0.0, lparent="world", mtr=0.0, p1tr=0.0, p1edist="base")


def _start(**kw):
    c = copy.deepcopy(DEFAULT)
    for k, v in kw.items():
        if isinstance(v, dict) and k in c:
            for k2, v2 in v.items():
                c[k][k2].update(v2)
        else:
            c[k] = v
    return c


STARTS = [
    _start(),
    _start(lspec="S2", lprof="G", lparent="mount", mtr=0.4, models=["ts", "ts"], importance=3.0),
    _start(models=[], plasma="P2", ltr=0.6),
    _start(lprof="G", prof_params={"G": {"length": 3.0, "radius": 0.25, "energy": 2.0, "polar": "x", "stddev_x": 0.08, "pulse_length": 0.5}},
           spec_params={"S1": {"min": 1050.0, "max": 1070.0, "bins": 5}}, p1tr=-0.7, p1edist="hot", integ=0.03),
]

GROUPS = {
    "placement": ["ltr", "lparent", "mtr", "p1tr", "plasma", "models", "lprof"],
    "spectrum": ["lspec", "spec_min", "spec_max", "spec_bins", "gs_mean", "gs_stddev", "models", "models_clear"],
    "profile": ["lprof", "prof_length", "prof_radius", "prof_energy", "prof_polar", "g_stddev_x", "g_pulse_length", "models", "models_clear", "integ", "importance"],
}

_G = {}


def _globals():
    if _G:
        return _G
    from raysect.core import Vector3D, Point3D
    from raysect.core.math.function.float import Arg3D, Exp3D
    x = Arg3D("x")
    _G["dens"] = 1e19 * Exp3D(-x * x)
    # laser axis = z (world z from -1 to +1..2), rays cross it
    _G["RAYS"] = [(Point3D(-3, 0.02, 0.2), Vector3D(1, 0, 0)), (Point3D(0.05, -2.4, -0.9), Vector3D(0, 0.8, 0.6)),
                  (Point3D(-3, 0.05, 1.6), Vector3D(1, 0, 0)), (Point3D(-2.5, -2.5, 0.5), Vector3D(0.7071067811865476, 0.7071067811865476, 0.0)),
                  (Point3D(-3, 0.2, 2.3), Vector3D(1, 0, 0))]
    _G["PTS"] = [(0, 0, 0.5), (0.03, -0.02, 1.5), (0.2, 0.0, 1.0), (0, 0, 2.5)]
    return _G


class Scene:
    pass


def _edist(kind):
    from raysect.core import Vector3D
    from cherab.core import Maxwellian
    g = _globals()
    if kind == "base":
        return Maxwellian(g["dens"], 1e3, Vector3D(0, 0, 0), 9.1093837015e-31)
    return Maxwellian(g["dens"] * 1.3, 2.5e3, Vector3D(0, 0, 0), 9.1093837015e-31)


def _mkplasma(parent, shift, edist):
    from raysect.core import translate
    from cherab.core import Plasma
    p = Plasma(parent=parent, transform=translate(shift, 0, 0))
    p.electron_distribution = _edist(edist)
    return p


def _polar(v):
    from raysect.core import Vector3D
    return Vector3D(0, 1, 0) if v == "y" else Vector3D(1, 0, 0)


def _mkspec(name, pr):
    from cherab.core.model.laser import ConstantSpectrum, GaussianSpectrum
    if name == "S1":
        return ConstantSpectrum(pr["min"], pr["max"], pr["bins"])
    return GaussianSpectrum(pr["min"], pr["max"], pr["bins"], pr["mean"], pr["stddev"])


def _mkprof(name, pr):
    from cherab.core.model.laser import UniformEnergyDensity, ConstantBivariateGaussian
    if name == "U":
        return UniformEnergyDensity(energy_density=pr["energy"], laser_length=pr["length"], laser_radius=pr["radius"], polarization=_polar(pr["polar"]))
    return ConstantBivariateGaussian(pulse_energy=pr["energy"], pulse_length=pr["pulse_length"], laser_radius=pr["radius"], laser_length=pr["length"],
                                     stddev_x=pr["stddev_x"], stddev_y=pr["stddev_y"], polarization=_polar(pr["polar"]))


def _mkmodels(names):
    from cherab.core.model.laser import SeldenMatobaThomsonSpectrum
    return [SeldenMatobaThomsonSpectrum() for _ in names]


def build(cfg):
    from raysect.core import translate
    from raysect.core.scenegraph import Node
    from raysect.optical import World
    from raysect.optical.material.emitter.inhomogeneous import NumericalIntegrator
    from cherab.core.laser import Laser
    s = Scene()
    s.world = World()
    s.mount = Node(parent=s.world, transform=translate(cfg["mtr"], 0, 0))
    s.P = {"P1": _mkplasma(s.world, cfg["p1tr"], cfg["p1edist"]), "P2": _mkplasma(s.world, 0.5, "hot")}
    s.specs = {k: _mkspec(k, v) for k, v in cfg["spec_params"].items()}
    s.profs = {k: _mkprof(k, v) for k, v in cfg["prof_params"].items()}
    la = Laser(parent=s.world if cfg["lparent"] == "world" else s.mount, transform=translate(cfg["ltr"], 0, -0.2))
    la.laser_spectrum = s.specs[cfg["lspec"]]
    la.plasma = s.P[cfg["plasma"]]
    la.laser_profile = s.profs[cfg["lprof"]]
    la.importance = cfg["importance"]
    s.models = _mkmodels(cfg["models"])
    la.models = s.models
    la.integrator = NumericalIntegrator(step=cfg["integ"])
    s.laser = la
    return s


def enabled(cfg, slot, v):
    if slot in ("gs_mean", "gs_stddev"):
        return cfg["lspec"] == "S2"
    if slot in ("g_stddev_x", "g_pulse_length"):
        return cfg["lprof"] == "G"
    if slot == "spec_min":
        return v < cfg["spec_params"][cfg["lspec"]]["max"]
    if slot == "spec_max":
        return v > cfg["spec_params"][cfg["lspec"]]["min"]
    return True


def apply(s, cfg, slot, v):
    from raysect.core import translate
    from raysect.optical.material.emitter.inhomogeneous import NumericalIntegrator
    la = s.laser
    sp = s.specs[cfg["lspec"]]
    spp = cfg["spec_params"][cfg["lspec"]]
    pf = s.profs[cfg["lprof"]]
    pfp = cfg["prof_params"][cfg["lprof"]]
    if slot == "plasma":
        la.plasma = s.P[v]
        cfg[slot] = v
    elif slot == "importance":
        la.importance = v
        cfg[slot] = v
    elif slot == "lspec":
        la.laser_spectrum = s.specs[v]
        cfg[slot] = v
    elif slot == "spec_min":
        sp.min_wavelength = v
        spp["min"] = v
    elif slot == "spec_max":
        sp.max_wavelength = v
        spp["max"] = v
    elif slot == "spec_bins":
        sp.bins = v
        spp["bins"] = v
    elif slot == "gs_mean":
        sp.mean = v
        spp["mean"] = v
    elif slot == "gs_stddev":
        sp.stddev = v
        spp["stddev"] = v
    elif slot == "lprof":
        la.laser_profile = s.profs[v]
        cfg[slot] = v
    elif slot == "prof_length":
        pf.laser_length = v
        pfp["length"] = v
    elif slot == "prof_radius":
        pf.laser_radius = v
        pfp["radius"] = v
    elif slot == "prof_energy":
        if cfg["lprof"] == "U":
            pf.energy_density = v
        else:
            pf.pulse_energy = v
        pfp["energy"] = v
    elif slot == "prof_polar":
        pf.set_polarization(_polar(v))
        pfp["polar"] = v
    elif slot == "g_stddev_x":
        pf.stddev_x = v
        pfp["stddev_x"] = v
    elif slot == "g_pulse_length":
        pf.pulse_length = v
        pfp["pulse_length"] = v
    elif slot == "models":
        s.models = _mkmodels(v)
        la.models = s.models
        cfg[slot] = list(v)
    elif slot == "models_add":
        m = _mkmodels([v])[0]
        s.models = s.models + [m]
        la.models = s.models            # Laser.models returns a plain list; the documented way to add is re-assignment
        cfg["models"] = cfg["models"] + [v]
    elif slot == "models_clear":
        s.models = []
        la.models = []
        cfg["models"] = []
    elif slot == "integ":
        la.integrator = NumericalIntegrator(step=v)
        cfg[slot] = v
    elif slot == "ltr":
        la.transform = translate(v, 0, -0.2)
        cfg[slot] = v
    elif slot == "lparent":
        la.parent = s.world if v == "world" else s.mount
        cfg[slot] = v
    elif slot == "mtr":
        s.mount.transform = translate(v, 0, 0)
        cfg[slot] = v
    elif slot == "p1tr":
        s.P["P1"].transform = translate(v, 0, 0)
        cfg[slot] = v
    elif slot == "p1edist":
        s.P["P1"].electron_distribution = _edist(v)
        cfg[slot] = v
    else:
        raise KeyError(slot)


def observe(s):
    from raysect.optical import Ray
    g = _globals()
    la = s.laser
    out = []
    geo = []
    try:
        segs = la.get_geometry()
        geo.append(len(segs))
        for seg in segs:
            m = seg.to_root()
            geo += [round(seg.radius, 12), round(seg.height, 12), m[0, 3], m[1, 3], m[2, 3]]
    except Exception as e:  # noqa
        geo.append("EXC:" + type(e).__name__)
    out.append(("geometry", geo))
    mat = []
    try:
        for seg in la.get_geometry():
            mt = seg.material
            mat.append(type(mt).__name__)
            mat.append(float(getattr(mt, "importance", -1.0)))
            integ = getattr(mt, "integrator", None)
            mat.append(float(integ.step) if integ is not None else -1.0)
    except Exception as e:  # noqa
        mat.append("EXC:" + type(e).__name__)
    out.append(("material", mat))
    prof = []
    lp = la.laser_profile
    for p in g["PTS"]:
        try:
            prof.append(lp.get_energy_density(*p))
            v = lp.get_polarization(*p)
            prof += [v.x, v.y, v.z]
        except Exception as e:  # noqa
            prof.append("EXC:" + type(e).__name__)
    out.append(("profile", prof))
    ls = la.laser_spectrum
    try:
        spec = [float(x) for x in ls.wavelengths] + [float(x) for x in ls.power_spectral_density]
    except Exception as e:  # noqa
        spec = ["EXC:" + type(e).__name__]
    out.append(("lspectrum", spec))
    for i, (o, d) in enumerate(g["RAYS"]):
        try:
            sp = Ray(origin=o, direction=d, min_wavelength=900, max_wavelength=1200, bins=12).trace(s.world)
            out.append(("ray%d" % i, [float(x) for x in sp.samples]))
        except Exception as e:  # noqa
            out.append(("ray%d" % i, ["EXC:" + type(e).__name__]))
    return out
