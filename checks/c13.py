"""C13 - function wrappers and samplers are exact pointwise compositions (engine L).

Every wrapper is built around a *recording* Python callable; the oracle is on the arguments that callable
receives (and on what the wrapper returns from what the callable returned).  The expected arguments come
from the documented mathematical map evaluated independently: exact `==` for swizzle / slice / clamp /
iso-mapping, rational arithmetic for the periodic remainder and for hypot enclosures, a 60-digit decimal
arctangent for the polar angle, the exact rational crossing-number rule for the polygon mask, exact
rational grids for the samplers (mc/refs/exactmath.py, mc/refs/polygons.py).
"""
import collections
import itertools
import math
from fractions import Fraction

PROPERTY = "C13"
DRIVER = ("construct wrapper around a recording callable -> call at every lattice argument -> compare the recorded inner "
          "arguments / returned value with the independently mapped argument; PolygonMask2D vs exact point-in-polygon over "
          "all simple lattice polygons; sample*d vs exact rational grids with an injective integer-coded function")

# ---------------------------------------------------------------------------------------------- alphabets
A_FULL = [-1e150, -1e12, -2.5, -1.0, -1e-20, -5e-324, -0.0, 0.0, 5e-324, 1e-20, 0.5, 1.0, 2.5, 1e12, 1e150]
A_SUB = [-1e12, -1.0, -1e-20, -0.0, 0.5, 2.5, 1e150]
PERIODS = [1.0, 0.1, 360.0, 2.0 * math.pi, 0.0]
MULTIPLES = [-1e9, -3.0, -2.0, -1.0, 1.0, 2.0, 3.0, 1e9]
CLAMP_BOUNDS = ["-inf", -1.0, 0.0, 1.0, "inf"]
AXES2 = ["x", "X", "y", "Y", 0, 1]
AXES3 = ["x", "X", "y", "Y", "z", "Z", 0, 1, 2]
SHAPES = [list(s) for s in itertools.product((0, 1, 2), repeat=3)]
RANGES = [[0.0, 1.0], [-1.0, 2.5], [-2.5, -1.0], [1.0, 1.0], [0.1, 0.7], [-1e12, 1e12], [1.0, 0.0], [2.5, -2.5]]
RANGES3_QUICK = [[0.0, 1.0], [-1.0, 2.5], [1.0, 1.0], [0.1, 0.7], [1.0, 0.0]]
Z_FEW = [-2.5, -0.0, 1e150]

ALPHABET = {
    "argument alphabet (1-D, pairs; triples in thorough)": A_FULL,
    "sub-alphabet (triples in quick)": A_SUB,
    "periods": PERIODS + ["0 = documented pass-through (2-D/3-D), rejected in 1-D"],
    "periodic extra arguments": "k*p for k in %s (floating-point product); -ulp(p), -ulp(p)/2, -ulp(p)/4" % MULTIPLES,
    "clamp bounds": "all ordered pairs lo < hi from %s, per axis" % CLAMP_BOUNDS,
    "slice axes": {"Slice2D": AXES2, "Slice3D": AXES3},
    "swizzle shapes": "all 27 tuples over (0,1,2)",
    "polygons": "every simple polygon on the 3x3 integer lattice with 3..6 vertices (492) and on the 4x4 lattice with 3..5 "
                "vertices (9882) [thorough: 3x3 up to 7, 4x4 up to 7 vertices]; every start vertex and both orientations; every "
                "variant with one extra collinear vertex (edge midpoint)",
    "polygon test points": "lattice of step 1/2, lattice of step 1/2 offset by 1/4, centroids of all vertex triples snapped to 1/64; "
                           "points exactly on the boundary are excluded (undefined)",
    "sampler ranges": RANGES,
    "sampler counts": "1..4 per axis in full product (thorough 1..6) plus one axis at 50/99/104 (thorough also 7/11/49/101/256)",
}
BOUND = {
    "quick": "full product of the 15-value alphabet for 1-D and 2-D wrappers, 7-value sub-alphabet cubed for 3-D wrappers; 5 periods per "
             "axis; 10 clamp intervals per axis; polygons: 3x3 lattice n<=6, 4x4 lattice n<=5; sampler counts 1..4",
    "thorough": "full 15-value alphabet cubed for all 3-D wrappers; polygons: 3x3 lattice n<=7, 4x4 lattice n<=7; sampler counts 1..6, "
                "all 8 ranges per axis in 3-D",
}
RULE = ("cases = (wrapper class x selector [shape / axis / bounds / periods / first coordinate]) each running the full argument product, "
        "chunks of 16 polygons, (sampler x range tuple) each running all count tuples. non-trivial = a (wrapper, selector, argument "
        "class tuple) for which the identity map would fail the oracle (mapped inner arguments differ from the outer arguments), a "
        "polygon with both inside and outside test points, a sampling grid with >= 2 points")
ASSUMPTIONS = [
    "huge arguments stop at 1e150 so that x*x+y*y is finite; no argument strictly between 5e-324 and 1e-20 in magnitude (x*x underflow is IEEE arithmetic, not the wrapper)",
    "hypot / atan2 based inner arguments are accepted within 2 ulp of the exact value (sqrt(x*x+y*y): three roundings before and one after the square root; libm atan2 < 1 ulp)",
    "periodic inner argument: must lie in [0, p) and be congruent to x within 1 ulp(p) on the circle (fmod is exact, the one addition of p rounds by <= 1/2 ulp(p)); -0.0 counts as 0",
    "sampler grids: end points exact, interior nodes within 3 ulp(max(|min|,|max|)) of min + i (max-min)/(n-1) (division, multiplication and addition each round once, i <= 5); "
    "n = 1 accepts any single node in [min, max]; a reversed range may be rejected with ValueError (documented) or sampled correctly",
    "polygon mask: test points exactly on the polygon boundary are excluded; points on internal diagonals of the triangulation are NOT excluded",
    "vector mappers: returned vector within 1e-12 |v| of R_z(phi) applied to the vector returned by the inner function; at r = 0 only the z component and the horizontal norm are checked",
    "at the origin (x = y = 0) the polar angle is undefined: any phi in (-pi, pi] is accepted",
    "NaN and infinities are not in the alphabet (property quantifies over finite arguments)",
]
REQUIRED_CLASSES = [
    "Swizzle2D", "Swizzle3D", "Slice2D", "Slice3D", "IsoMapper2D", "IsoMapper3D",
    "ClampInput1D", "ClampInput2D", "ClampInput3D", "ClampOutput1D", "ClampOutput2D", "ClampOutput3D",
    "clamp:below", "clamp:inside", "clamp:above", "clamp:on-bound",
    "PeriodicTransform1D", "PeriodicTransform2D", "PeriodicTransform3D",
    "VectorPeriodicTransform1D", "VectorPeriodicTransform2D", "VectorPeriodicTransform3D",
    "periodic:x<0", "periodic:x>=p", "periodic:x-in-[0,p)", "periodic:exact-multiple", "periodic:residue-rounds-to-period",
    "periodic:pass-through(p=0)", "periodic:1d-zero-period-rejected",
    "AxisymmetricMapper", "VectorAxisymmetricMapper", "CylindricalTransform", "VectorCylindricalTransform",
    "polar:branch-cut:y=+0,x<0", "polar:branch-cut:y=-0,x<0", "polar:origin", "polar:quadrant-1", "polar:quadrant-2",
    "polar:quadrant-3", "polar:quadrant-4", "polar:subnormal",
    "polygon:convex", "polygon:concave", "polygon:cw", "polygon:ccw", "polygon:collinear-vertex",
    "polygon:nv=3", "polygon:nv=4", "polygon:nv=5", "polygon:nv=6",
    "point:inside", "point:outside", "point:boundary-excluded",
    "sample1d", "sample2d", "sample3d", "samplevector2d", "samplevector3d",
    "sample1d_points", "sample2d_points", "sample3d_points", "sample2d_grid", "sample3d_grid",
    "samplevector2d_points", "samplevector3d_points", "samplevector2d_grid", "samplevector3d_grid",
    "sampler:n=1", "sampler:n>1", "sampler:min==max", "sampler:reversed-rejected", "sampler:negative-range",
]
BUDGET_S = {"quick": 300, "thorough": 1500}
CHUNK = 4
POLY_CHUNK = 16


# ---------------------------------------------------------------------------------------------- helpers
def _f(v):
    """Decode a case value ('-inf' / 'inf' strings stand for the infinities)."""
    return float(v)


def xcls(x):
    """Class label of an argument value (used in signatures: never the value itself)."""
    if x == 0:
        return "-0" if math.copysign(1.0, x) < 0 else "+0"
    a = abs(x)
    s = "-" if x < 0 else "+"
    if a < 2.3e-308:
        return s + "subnormal"
    if a <= 1e-15:
        return s + "tiny"
    if a >= 1e100:
        return s + "huge"
    if a >= 1e9:
        return s + "large"
    return s + "ordinary"


def V(viol, sig, what, expected, observed):
    viol.append({"sig": "C13:" + sig, "what": what, "expected": expected, "observed": observed})


class Classes(collections.Counter):
    """Counter of class labels (the runner sums them); `append` / `+=` keep the list-like call sites short."""

    def append(self, label, k=1):
        self[label] += k

    def __iadd__(self, labels):
        for lab in labels:
            self[lab] += 1
        return self


class Res:
    def __init__(self):
        self.viol, self.classes, self.states, self.nontrivial = [], Classes(), set(), set()
        self.n = 0
        self.summary = []

    def out(self, case):
        sigs = sorted({v["sig"] for v in self.viol})
        kept, per = [], collections.Counter()
        for v in self.viol:           # at most 3 records per signature and case (all signatures are kept)
            per[v["sig"]] += 1
            if per[v["sig"]] <= 3:
                kept.append(v)
        return {"viol": kept, "classes": self.classes, "n": max(self.n, 1), "transitions": max(self.n, 1),
                "states": self.states, "nontrivial": self.nontrivial,
                "outcome": (case.get("family"), str(case.get("sel")), self.n, tuple(sigs), tuple(self.summary))}


def recorder(ret=None):
    """A Python callable that records its arguments.  It returns a fresh, unique float per call (so that
    the wrapper's return value identifies the call it came from) unless `ret` maps the arguments to a value."""
    calls = []
    rets = []

    def f(*a):
        calls.append(a)
        v = float(1000 + len(calls)) if ret is None else ret(*a)
        rets.append(v)
        return v
    return f, calls, rets


def vec_recorder(ret=None):
    from raysect.core.math import Vector3D
    calls = []
    rets = []

    def f(*a):
        calls.append(a)
        k = float(len(calls))
        v = (1.5 + k, -0.75 - 0.5 * k, 2.0 + 0.25 * k) if ret is None else ret(*a)
        rets.append(v)
        return Vector3D(v[0], v[1], v[2])
    return f, calls, rets


def clamp_ref(x, lo, hi):
    """Documented clamp: the nearest value of [lo, hi]."""
    if x < lo:
        return lo
    if x > hi:
        return hi
    return x


def clamp_class(x, lo, hi):
    if x < lo:
        return "clamp:below"
    if x > hi:
        return "clamp:above"
    if x == lo or x == hi:
        return "clamp:on-bound"
    return "clamp:inside"


def check_call(R, cls, label, wrapper, args, calls, rets, exp_args, exp_ret="inner", arglabel=None):
    """Call wrapper(*args); the recording inner callable must have been called exactly once more, with
    arguments == exp_args, and the wrapper must return the inner return value (exp_ret == 'inner') or the
    given value.  Signatures carry `label` (a class of the selector) and, if `arglabel` is given, its value
    for the list of mismatching inner-argument positions (a class label, never a value)."""
    n0 = len(calls)
    try:
        got = wrapper(*args)
    except Exception as e:  # noqa
        V(R.viol, "%s:%s:raises:%s" % (cls, label, type(e).__name__), "%s%r raised %r" % (cls, args, e), "a value", repr(e))
        R.n += 1
        return None
    R.n += 1
    if len(calls) == n0:   # (evaluating the wrapped function more than once is not a violation: the last call is checked)
        V(R.viol, "%s:%s:inner-not-called" % (cls, label), "%s%r did not evaluate the wrapped function" % (cls, args), ">= 1 call", 0)
        return got
    rec = calls[-1]
    if exp_args is not None:
        if len(rec) != len(exp_args) or any(not (a == b) for a, b in zip(rec, exp_args)):
            bad = [i for i, (a, b) in enumerate(zip(rec, exp_args)) if not (a == b)]
            extra = "arity" if len(rec) != len(exp_args) else (arglabel(bad) if arglabel else "")
            V(R.viol, "%s:%s:inner-args%s" % (cls, label, ":" + extra if extra else ""),
              "%s%r passed %r to the wrapped function" % (cls, args, rec), list(exp_args), list(rec))
    want = rets[-1] if exp_ret == "inner" else exp_ret
    if exp_ret is not None and not (got == want):
        V(R.viol, "%s:%s:return-value" % (cls, label), "%s%r returned %r" % (cls, args, got), want, got)
    return got


# ---------------------------------------------------------------------------------------------- cases
def _clamp_pairs():
    out = []
    for lo in CLAMP_BOUNDS:
        for hi in CLAMP_BOUNDS:
            if _f(lo) < _f(hi):
                out.append([lo, hi])
    return out


_POLY_CACHE = {}


def _polys(g, nv):
    from mc.refs.polygons import simple_polygons
    key = (g, nv)
    if key not in _POLY_CACHE:
        _POLY_CACHE[key] = list(simple_polygons(g, nv, nv))
    return _POLY_CACHE[key]


def poly_families(tier):
    fam = [(3, 3), (3, 4), (3, 5), (3, 6), (4, 3), (4, 4), (4, 5)]
    if tier == "thorough":
        fam += [(3, 7), (4, 6), (4, 7)]
    return fam


def cases(tier):
    th = tier == "thorough"
    out = []

    def add(family, sel, **kw):
        d = {"family": family, "sel": sel, "label": family, "tier3": "full" if th else "sub"}
        d.update(kw)
        out.append(d)

    add("Swizzle2D", None)
    for s in SHAPES:
        add("Swizzle3D", s)
    for a in AXES2:
        add("Slice2D", a)
    for a in AXES3:
        add("Slice3D", a)
    for i in range(len(A_FULL)):
        add("IsoMapper2D", i)
        add("IsoMapper3D", i)
    pairs = _clamp_pairs()
    for p in pairs:
        add("ClampInput1D", [p])
        add("ClampOutput1D", [p])
        add("ClampOutput2D", [p])
        add("ClampOutput3D", [p])
    for p in pairs:
        for q in pairs:
            add("ClampInput2D", [p, q])
    for p in pairs:
        for q in pairs:
            for r in pairs:
                add("ClampInput3D", [p, q, r])
    for vec in ("", "Vector"):
        for p in PERIODS:
            add(vec + "PeriodicTransform1D", [p])
        for p in PERIODS:
            for q in PERIODS:
                add(vec + "PeriodicTransform2D", [p, q])
        for p in PERIODS:
            for q in PERIODS:
                for r in PERIODS:
                    add(vec + "PeriodicTransform3D", [p, q, r])
    for fam in ("AxisymmetricMapper", "VectorAxisymmetricMapper", "CylindricalTransform", "VectorCylindricalTransform"):
        for i in range(len(A_FULL)):
            add(fam, i)
    for g, nv in poly_families(tier):
        n = len(_polys(g, nv))
        for s in range(0, n, POLY_CHUNK):
            add("PolygonMask2D", [g, nv, s], count=min(POLY_CHUNK, n - s))
    nmax = 6 if th else 4
    for r in RANGES:
        add("sample1d", [r], nmax=nmax)
    for r in RANGES:
        for q in RANGES:
            add("sample2d", [r, q], nmax=nmax)
    r3 = RANGES if th else RANGES3_QUICK
    for r in r3:
        for q in r3:
            for s in r3:
                add("sample3d", [r, q, s], nmax=nmax)
    add("sample_points", None)
    add("sample_grid", None)
    return out


# ---------------------------------------------------------------------------------------------- run_case
def run_case(case):
    R = Res()
    fam = case["family"]
    A3 = A_FULL if case.get("tier3") == "full" else A_SUB
    fn = globals().get("_run_" + fam)
    if fn is None:
        if fam.endswith("PeriodicTransform1D") or fam.endswith("PeriodicTransform2D") or fam.endswith("PeriodicTransform3D"):
            _run_periodic(R, case, A3)
        elif fam.startswith("Clamp"):
            _run_clamp(R, case, A3)
        elif fam in ("AxisymmetricMapper", "VectorAxisymmetricMapper", "CylindricalTransform", "VectorCylindricalTransform"):
            _run_polar(R, case)
        else:
            raise RuntimeError("unknown family %r" % fam)
    else:
        fn(R, case, A3)
    return R.out(case)


def _run_Swizzle2D(R, case, A3):
    from cherab.core.math import Swizzle2D
    f, calls, rets = recorder()
    w = Swizzle2D(f)
    R.classes.append("Swizzle2D")
    for x in A_FULL:
        for y in A_FULL:
            check_call(R, "Swizzle2D", "yx", w, (x, y), calls, rets, (y, x))
            R.states.add(("Swizzle2D", xcls(x), xcls(y)))
            if not (x == y):
                R.nontrivial.add(("Swizzle2D", xcls(x), xcls(y)))


def _run_Swizzle3D(R, case, A3):
    from cherab.core.math import Swizzle3D
    shape = tuple(case["sel"])
    f, calls, rets = recorder()
    w = Swizzle3D(f, shape)
    R.classes.append("Swizzle3D")
    label = "shape=" + ("identity" if shape == (0, 1, 2) else "permutation" if len(set(shape)) == 3 else "repeated-axis")
    for x in A3:
        for y in A3:
            for z in A3:
                a = (x, y, z)
                exp = (a[shape[0]], a[shape[1]], a[shape[2]])  # documented: shape=(0,2,1) turns f(x,y,z) into f(x,z,y)
                check_call(R, "Swizzle3D", label, w, a, calls, rets, exp)
                key = ("Swizzle3D", shape, xcls(x), xcls(y), xcls(z))
                R.states.add(key)
                if any(not (p == q) for p, q in zip(a, exp)):
                    R.nontrivial.add(key)


def _axis_index(axis):
    return {"x": 0, "y": 1, "z": 2}[axis.lower()] if isinstance(axis, str) else axis


def _run_Slice2D(R, case, A3):
    from cherab.core.math import Slice2D
    axis = case["sel"]
    ai = _axis_index(axis)
    R.classes.append("Slice2D")
    for v in A_FULL:
        f, calls, rets = recorder()
        w = Slice2D(f, axis, v)
        for x in A_FULL:
            # documented: Slice2D(f, 'x', 1.5)(t) = f(1.5, t)
            exp = (v, x) if ai == 0 else (x, v)
            check_call(R, "Slice2D", "axis=%s" % ("xy"[ai]), w, (x,), calls, rets, None)
            rec = calls[-1] if calls else None
            if rec is None or len(rec) != 2 or not (rec[0] == exp[0] and rec[1] == exp[1]):
                V(R.viol, "Slice2D:axis=%s:%s:inner-args" % ("xy"[ai], "str" if isinstance(axis, str) else "int"),
                  "Slice2D(f, %r, %r)(%r) passed %r" % (axis, v, x, rec), list(exp), list(rec) if rec else None)
            key = ("Slice2D", str(axis), xcls(v), xcls(x))
            R.states.add(key)
            if not (v == x):
                R.nontrivial.add(key)


def _run_Slice3D(R, case, A3):
    from cherab.core.math import Slice3D
    axis = case["sel"]
    ai = _axis_index(axis)
    R.classes.append("Slice3D")
    for v in A_FULL:
        f, calls, rets = recorder()
        w = Slice3D(f, axis, v)
        for x in A_FULL:
            for y in A_FULL:
                exp = [x, y]
                exp.insert(ai, v)  # documented: Slice3D(f, 'x', 1.5)(s, t) = f(1.5, s, t); the remaining axes keep their order
                check_call(R, "Slice3D", "axis=%s" % ("xyz"[ai]), w, (x, y), calls, rets, None)
                rec = calls[-1] if calls else None
                if rec is None or len(rec) != 3 or any(not (a == b) for a, b in zip(rec, exp)):
                    V(R.viol, "Slice3D:axis=%s:%s:inner-args" % ("xyz"[ai], "str" if isinstance(axis, str) else "int"),
                      "Slice3D(f, %r, %r)(%r, %r) passed %r" % (axis, v, x, y, rec), exp, list(rec) if rec else None)
                key = ("Slice3D", str(axis), xcls(v), xcls(x), xcls(y))
                R.states.add(key)
                R.nontrivial.add(key)


def _run_IsoMapper2D(R, case, A3):
    from cherab.core.math import IsoMapper2D
    _iso(R, case, IsoMapper2D, 2, "IsoMapper2D")


def _run_IsoMapper3D(R, case, A3):
    from cherab.core.math import IsoMapper3D
    _iso(R, case, IsoMapper3D, 3, "IsoMapper3D")


def _iso(R, case, klass, dim, name):
    """g(f(x..)): f is called at exactly the outer point, g at exactly the value f returned, and the result
    is what g returned.  f returns the alphabet value selected by the outer point (so g's argument sweeps the
    whole alphabet, including -0.0, subnormals and 1e150)."""
    x0 = A_FULL[case["sel"]]
    R.classes.append(name)
    nA = len(A_FULL)
    state = {"k": 0}

    def fret(*a):
        state["k"] += 1
        return A_FULL[state["k"] % nA]
    f, fcalls, frets = recorder(fret)
    g, gcalls, grets = recorder()
    w = klass(f, g)
    rest = itertools.product(A_FULL, repeat=dim - 1)
    for r in rest:
        a = (x0,) + tuple(r)
        n0f, n0g = len(fcalls), len(gcalls)
        try:
            got = w(*a)
        except Exception as e:  # noqa
            V(R.viol, "%s:raises:%s" % (name, type(e).__name__), "%s%r raised %r" % (name, a, e), "a value", repr(e))
            R.n += 1
            continue
        R.n += 1
        if len(fcalls) == n0f or len(gcalls) == n0g:
            V(R.viol, "%s:inner-not-called" % name, "%s%r: field called %d times, 1-D function %d times" % (name, a, len(fcalls) - n0f, len(gcalls) - n0g), ">= 1 call each", [len(fcalls) - n0f, len(gcalls) - n0g])
            continue
        if any(not (p == q) for p, q in zip(fcalls[-1], a)) or len(fcalls[-1]) != dim:
            V(R.viol, "%s:field-args" % name, "%s%r evaluated the field at %r" % (name, a, fcalls[-1]), list(a), list(fcalls[-1]))
        fv = frets[-1]
        if len(gcalls[-1]) != 1 or not (gcalls[-1][0] == fv):
            V(R.viol, "%s:function1d-arg" % name, "%s%r: field returned %r, 1-D function received %r" % (name, a, fv, gcalls[-1]), fv, list(gcalls[-1]))
        if not (got == grets[-1]):
            V(R.viol, "%s:return-value" % name, "%s%r returned %r, 1-D function returned %r" % (name, a, got, grets[-1]), grets[-1], got)
        key = (name, xcls(x0), tuple(xcls(v) for v in r), xcls(fv))
        R.states.add(key)
        R.nontrivial.add(key)


def _run_clamp(R, case, A3):
    import cherab.core.math as cm
    fam = case["family"]
    klass = getattr(cm, fam)
    dim = int(fam[-2])
    bounds = [(_f(lo), _f(hi)) for lo, hi in case["sel"]]
    R.classes.append(fam)
    alph = A_FULL if dim < 3 else A3
    if fam.startswith("ClampInput"):
        names = ["xmin", "xmax", "ymin", "ymax", "zmin", "zmax"]
        kw = {}
        for d, (lo, hi) in enumerate(bounds):
            kw[names[2 * d]] = lo
            kw[names[2 * d + 1]] = hi
        f, calls, rets = recorder()
        w = klass(f, **kw)
        for a in itertools.product(alph, repeat=dim):
            exp = tuple(clamp_ref(v, lo, hi) for v, (lo, hi) in zip(a, bounds))
            check_call(R, fam, "bounds", w, a, calls, rets, exp,
                       arglabel=lambda bad: "axis%d:%s" % (bad[0], clamp_class(a[bad[0]], *bounds[bad[0]])[6:]))
            for v, (lo, hi) in zip(a, bounds):
                R.classes.append(clamp_class(v, lo, hi))
            key = (fam, tuple(bounds), tuple(xcls(v) for v in a))
            R.states.add(key)
            if any(not (p == q) for p, q in zip(a, exp)):
                R.nontrivial.add(key)
    else:
        lo, hi = bounds[0]
        # the wrapped function returns its first argument: the output sweeps the alphabet
        f, calls, rets = recorder(lambda *a: a[0])
        w = klass(f, min=lo, max=hi)
        for a in itertools.product(alph, repeat=dim):
            exp = clamp_ref(a[0], lo, hi)
            n0 = len(R.viol)
            check_call(R, fam, "bounds", w, a, calls, rets, a, exp_ret=exp)
            for v in R.viol[n0:]:
                if v["sig"].endswith(":return-value"):
                    v["sig"] += ":" + clamp_class(a[0], lo, hi)[6:]
            R.classes.append(clamp_class(a[0], lo, hi))
            key = (fam, (lo, hi), tuple(xcls(v) for v in a))
            R.states.add(key)
            if not (exp == a[0]):
                R.nontrivial.add(key)
        # default bounds = no clamping at all
        f2, calls2, rets2 = recorder(lambda *a: a[0])
        w2 = klass(f2)
        for a in itertools.product(alph if dim == 1 else A_SUB, repeat=dim):
            check_call(R, fam, "default-bounds", w2, a, calls2, rets2, a, exp_ret=a[0])


# ------------------------------------------------------------------------------------------------ periodic
def _periodic_alphabet(p, base):
    out = list(base)
    if p > 0:
        for k in MULTIPLES:
            v = k * p
            if v not in out:
                out.append(v)
        # both sides of the point where fmod(x, p) + p starts rounding up to p
        u = math.ulp(p)
        out += [-u, -u / 2, -u / 4]
    return out


_MOD_MEMO = {}


def _periodic_expect(x, p):
    """-> (class label, exact residue Fraction or None for pass-through)."""
    from mc.refs.exactmath import mod_exact
    key = (x, math.copysign(1.0, x), p)
    r = _MOD_MEMO.get(key)
    if r is None:
        if p == 0:
            r = ("periodic:pass-through(p=0)", None)
        else:
            m = mod_exact(x, p)
            if m == 0 and x != 0:
                c = "periodic:exact-multiple"
            elif float(m) >= p:
                # the exact residue is < p but its correctly rounded double is p itself (float(Fraction) rounds
                # correctly): the nearest representable values of [0, p) are the double just below p, and 0
                c = "periodic:residue-rounds-to-period"
            elif x < 0:
                c = "periodic:x<0"
            elif x >= p:
                c = "periodic:x>=p"
            else:
                c = "periodic:x-in-[0,p)"
            r = (c, m)
        _MOD_MEMO[key] = r
    return r


def _periodic_check_axis(R, fam, axis, x, p, got):
    """Oracle for one coordinate.  Returns the input-class label."""
    from mc.refs.exactmath import circular_distance
    c, m = _periodic_expect(x, p)
    R.classes.append(c)
    if m is None:
        if not (got == x):
            V(R.viol, "%s:period=0:pass-through-altered" % fam, "%s axis %d: period 0 (documented: not periodic) x=%r inner=%r" % (fam, axis, x, got), x, got)
        return c
    tiny = (c == "periodic:residue-rounds-to-period")
    xl = ("x=-tiny" if (x < 0 and abs(x) < p) else "x=just-below-multiple") if tiny else ("x<0" if x < 0 else "x>=0")
    if not (0.0 <= got < p):
        if got == p:
            V(R.viol, "%s:%s:inner==period" % (fam, xl), "%s(f, period=%r) at x=%r passes %r to f: not in [0, period)" % (fam, p, x, got), "in [0, %r), congruent to x" % p, got)
        else:
            V(R.viol, "%s:%s:inner-outside-[0,p)" % (fam, xl), "%s(f, period=%r) at x=%r passes %r to f" % (fam, p, x, got), "in [0, %r)" % p, got)
        return c
    # where the exact residue is itself a double (always for x >= 0 and for exact multiples of the period) the
    # mathematically mapped argument is representable and must be passed on exactly (-0.0 counts as 0)
    fm = float(m)
    if Fraction(fm) == m and fm < p:
        if not (got == fm):
            lab = "exact-multiple" if c == "periodic:exact-multiple" else xl
            V(R.viol, "%s:%s:inner-not-the-exact-residue" % (fam, lab), "%s(f, period=%r) at x=%r passes %r to f; x mod p = %r exactly" % (fam, p, x, got, fm), fm, got)
        return c
    d = circular_distance(Fraction(got), m, Fraction(p))
    if d > Fraction(math.ulp(p)):
        V(R.viol, "%s:%s:inner-not-congruent" % (fam, xl), "%s(f, period=%r) at x=%r passes %r to f; x mod p = %r" % (fam, p, x, got, float(m)), float(m), got)
    return c


def _run_periodic(R, case, A3):
    import cherab.core.math as cm
    fam = case["family"]
    klass = getattr(cm, fam)
    vec = fam.startswith("Vector")
    dim = int(fam[-2])
    periods = [float(p) for p in case["sel"]]
    R.classes.append(fam)
    mk = vec_recorder if vec else recorder
    if dim == 1 and periods[0] == 0:
        f, calls, rets = mk()
        try:
            klass(f, 0.0)
            V(R.viol, "%s:period=0:accepted" % fam, "%s(f, 0.0) did not raise (documented: period must be positive)" % fam, "ValueError", "constructed")
        except ValueError:
            R.classes.append("periodic:1d-zero-period-rejected")
        R.n += 1
        return
    f, calls, rets = mk()
    w = klass(f, *periods)
    if dim == 3 and A3 is A_SUB:
        # keep the cube small in quick: sub-alphabet plus the multiples -1, 2, 1e9
        alph = [list(A_SUB) + ([k * p for k in (-1.0, 2.0, 1e9)] if p > 0 else []) for p in periods]
    else:
        alph = [_periodic_alphabet(p, A_FULL) for p in periods]
    for a in itertools.product(*alph):
        n0 = len(calls)
        try:
            got = w(*a)
        except Exception as e:  # noqa
            V(R.viol, "%s:raises:%s" % (fam, type(e).__name__), "%s%r%r raised %r" % (fam, tuple(periods), a, e), "a value", repr(e))
            R.n += 1
            continue
        R.n += 1
        if len(calls) == n0:
            V(R.viol, "%s:inner-not-called" % fam, "%s%r did not evaluate the wrapped function" % (fam, a), ">= 1 call", 0)
            continue
        rec = calls[-1]
        if len(rec) != dim:
            V(R.viol, "%s:inner-arity" % fam, "%r" % (rec,), dim, len(rec))
            continue
        labs = []
        for ax in range(dim):
            labs.append(_periodic_check_axis(R, fam, ax, a[ax], periods[ax], rec[ax]))
        if vec:
            gv = (got.x, got.y, got.z)
            if not (gv == tuple(rets[-1])):
                V(R.viol, "%s:return-value" % fam, "%s%r returned %r" % (fam, a, gv), list(rets[-1]), list(gv))
        elif not (got == rets[-1]):
            V(R.viol, "%s:return-value" % fam, "%s%r returned %r" % (fam, a, got), rets[-1], got)
        key = (fam, tuple(periods), tuple(labs), tuple(xcls(v) for v in a))
        R.states.add(key)
        if any(not (p == q) for p, q in zip(a, rec)):
            R.nontrivial.add(key)


# ------------------------------------------------------------------------------------------------ polar mappers
def _polar_class(x, y):
    zx, zy = (x == 0), (y == 0)
    if zx and zy:
        return "polar:origin"
    if zy and x < 0:
        return "polar:branch-cut:y=-0,x<0" if math.copysign(1.0, y) < 0 else "polar:branch-cut:y=+0,x<0"
    if zy:
        return "polar:axis:+x"
    if zx:
        return "polar:axis:+y" if y > 0 else "polar:axis:-y"
    if x > 0:
        return "polar:quadrant-1" if y > 0 else "polar:quadrant-4"
    return "polar:quadrant-2" if y > 0 else "polar:quadrant-3"


def _run_polar(R, case):
    import cherab.core.math as cm
    from mc.refs.exactmath import sqrt_within_ulps, angle_within_ulps, unit_direction
    fam = case["family"]
    klass = getattr(cm, fam)
    vec = fam.startswith("Vector")
    cyl = "Cylindrical" in fam
    x = A_FULL[case["sel"]]
    R.classes.append(fam)
    f, calls, rets = (vec_recorder if vec else recorder)()
    w = klass(f)
    for y in A_FULL:
        for z in Z_FEW:
            a = (x, y, z)
            pc = _polar_class(x, y)
            R.classes.append(pc)
            if 0 < abs(x) < 2.3e-308 or 0 < abs(y) < 2.3e-308:
                R.classes.append("polar:subnormal")
            short = pc[len("polar:"):].split(":")[0].split("-")[0]   # branch / origin / axis / quadrant
            if short == "branch":
                short = "branch-cut"
            mag = max(abs(x), abs(y))
            mcls = "zero" if mag == 0 else "subnormal" if mag < 2.3e-308 else "huge" if mag >= 1e100 else "ordinary"
            n0 = len(calls)
            try:
                got = w(*a)
            except Exception as e:  # noqa
                V(R.viol, "%s:%s:raises:%s" % (fam, short, type(e).__name__), "%s%r raised %r" % (fam, a, e), "a value", repr(e))
                R.n += 1
                continue
            R.n += 1
            if len(calls) == n0:
                V(R.viol, "%s:inner-not-called" % fam, "%s%r did not evaluate the wrapped function" % (fam, a), ">= 1 call", 0)
                continue
            rec = calls[-1]
            if len(rec) != (3 if cyl else 2):
                V(R.viol, "%s:inner-arity" % fam, repr(rec), 3 if cyl else 2, len(rec))
                continue
            r_obs = rec[0]
            z_obs = rec[-1]
            q = Fraction(x) ** 2 + Fraction(y) ** 2
            if not sqrt_within_ulps(r_obs, q, 2):
                V(R.viol, "%s:r:magnitude=%s" % (fam, mcls), "%s%r passed r=%r; exact hypot=%r" % (fam, a, r_obs, math.hypot(x, y)), math.hypot(x, y), r_obs)
            if not (z_obs == z):
                V(R.viol, "%s:z" % fam, "%s%r passed z=%r" % (fam, a, z_obs), z, z_obs)
            if cyl:
                phi = rec[1]
                ok, ref = angle_within_ulps(phi, y, x, 2)
                if not ok:
                    if phi == -math.pi and y == 0 and math.copysign(1.0, y) < 0 and x <= 0:
                        V(R.viol, "%s:branch-cut:y=-0:phi==-pi" % fam,
                          "%s at (x=%r, y=-0.0) passes phi=%r to f: the point lies on the negative x axis, polar angle +pi (documented interval (-pi, pi]; y=+0.0 gives +pi)" % (fam, x, phi), "+pi" if ref is not None else "any phi in (-pi, pi]", phi)
                    else:
                        V(R.viol, "%s:phi:%s" % (fam, short), "%s%r passed phi=%r" % (fam, a, phi), ref, phi)
            if vec:
                iv = rets[-1]
                gv = (got.x, got.y, got.z)
                scale = math.sqrt(sum(c * c for c in iv))
                cs = unit_direction(x, y)
                if cs is None:
                    hn_e, hn_o = math.hypot(iv[0], iv[1]), math.hypot(gv[0], gv[1])
                    if abs(gv[2] - iv[2]) > 1e-12 * scale or abs(hn_e - hn_o) > 1e-12 * scale:
                        V(R.viol, "%s:vector:origin" % fam, "%s%r returned %r for inner vector %r" % (fam, a, gv, iv), "same z and horizontal norm", list(gv))
                else:
                    c, s = cs
                    ev = (iv[0] * c - iv[1] * s, iv[0] * s + iv[1] * c, iv[2])  # R_z(phi) v, cos phi = x/r, sin phi = y/r
                    if any(abs(p - q_) > 1e-12 * scale for p, q_ in zip(gv, ev)):
                        V(R.viol, "%s:vector:%s" % (fam, short), "%s%r returned %r for inner vector %r" % (fam, a, gv, iv), list(ev), list(gv))
            elif not (got == rets[-1]):
                V(R.viol, "%s:return-value" % fam, "%s%r returned %r" % (fam, a, got), rets[-1], got)
            key = (fam, pc, xcls(x), xcls(y), xcls(z))
            R.states.add(key)
            R.nontrivial.add(key)


# ------------------------------------------------------------------------------------------------ polygon mask
_SCALE = 64


def _test_points(g, poly):
    """Test points as integer pairs at scale 1/64 (all exactly representable as doubles)."""
    pts = set()
    for i in range(-1, 2 * g):            # step 1/2 from -1/2 to g - 1/2
        for j in range(-1, 2 * g):
            pts.add((i * 32, j * 32))
    for i in range(-1, 2 * g - 1):        # step 1/2 offset 1/4, from -1/4 to g - 3/4
        for j in range(-1, 2 * g - 1):
            pts.add((i * 32 + 16, j * 32 + 16))
    for a, b, c in itertools.combinations(poly, 3):   # centroid of every vertex triple, snapped to 1/64
        sx = (a[0] + b[0] + c[0]) * _SCALE
        sy = (a[1] + b[1] + c[1]) * _SCALE
        pts.add(((2 * sx + 3) // 6, (2 * sy + 3) // 6))
    return sorted(pts)


def _run_PolygonMask2D(R, case, A3):
    import numpy as np
    from cherab.core.math import PolygonMask2D
    from mc.refs.polygons import (point_in_polygon_exact, rotations_and_directions, collinear_variants, is_convex,
                                  orientation)
    g, nv, start = case["sel"]
    polys = _polys(g, nv)[start:start + case["count"]]
    R.classes.append("PolygonMask2D")
    for P in polys:
        SP = [(x * _SCALE, y * _SCALE) for x, y in P]
        inside, outside, nb = [], [], 0
        for (i, j) in _test_points(g, P):
            c = point_in_polygon_exact(SP, i, j)
            if c == "in":
                inside.append((i / _SCALE, j / _SCALE))
            elif c == "out":
                outside.append((i / _SCALE, j / _SCALE))
            else:
                nb += 1
        convex = is_convex(P)
        shape = "convex" if convex else "concave"
        R.classes.append("polygon:" + shape)
        R.classes.append("polygon:nv=%d" % nv)
        R.classes.append("point:inside", len(inside))
        R.classes.append("point:outside", len(outside))
        R.classes.append("point:boundary-excluded", nb)
        R.states.add(("poly", g, P))
        if inside and outside:
            R.nontrivial.add(("poly", g, P))
        presentations = [(Q, "") for Q in rotations_and_directions(P)]
        # one extra straight-angle vertex on each edge; 3x3 lattice: every start vertex and direction, 4x4: as generated and reversed
        for Cv in collinear_variants(P):
            if g <= 3:
                presentations += [(Q, "+collinear") for Q in rotations_and_directions(Cv)]
            else:
                presentations += [(Cv, "+collinear"), (Cv[::-1], "+collinear")]
        for Q, extra in presentations:
            o = orientation(Q)
            R.classes.append("polygon:ccw" if o > 0 else "polygon:cw")
            if extra:
                R.classes.append("polygon:collinear-vertex")
            arr = np.array([[float(x), float(y)] for x, y in Q], dtype=float)
            try:
                m = PolygonMask2D(arr)
            except Exception as e:  # noqa
                V(R.viol, "PolygonMask2D:%s%s:construct:raises:%s" % (shape, extra, type(e).__name__),
                  "PolygonMask2D(%r) raised %r" % (arr.tolist(), e), "a mask", repr(e))
                R.n += 1
                continue
            wrong_in = [p for p in inside if m(p[0], p[1]) != 1.0]
            wrong_out = [p for p in outside if m(p[0], p[1]) != 0.0]
            R.n += len(inside) + len(outside)
            if wrong_in:
                V(R.viol, "PolygonMask2D:%s%s:inside-point-reported-outside" % (shape, extra),
                  "PolygonMask2D(%r) is not 1.0 at strictly interior point(s) %r" % (arr.tolist(), wrong_in[:4]), 1.0, [m(p[0], p[1]) for p in wrong_in[:4]])
            if wrong_out:
                V(R.viol, "PolygonMask2D:%s%s:outside-point-reported-inside" % (shape, extra),
                  "PolygonMask2D(%r) is not 0.0 at strictly exterior point(s) %r" % (arr.tolist(), wrong_out[:4]), 0.0, [m(p[0], p[1]) for p in wrong_out[:4]])
    R.summary.append(len(polys))


# ------------------------------------------------------------------------------------------------ samplers
def _grid_check(R, name, axis, lo, hi, n, xs):
    """xs (numpy array returned by the sampler) against the exact evenly spaced grid including both end points."""
    xs = [float(v) for v in xs]
    if len(xs) != n:
        V(R.viol, "%s:axis-length" % name, "%s range (%r, %r, %d) returned %d nodes on axis %d" % (name, lo, hi, n, len(xs), axis), n, len(xs))
        return False
    if n == 1:
        if not (min(lo, hi) <= xs[0] <= max(lo, hi)):
            V(R.viol, "%s:n=1:node-outside-range" % name, "%s range (%r, %r, 1) node %r" % (name, lo, hi, xs[0]), [lo, hi], xs[0])
            return False
        return True
    ok = True
    if not (xs[0] == lo and xs[-1] == hi):
        V(R.viol, "%s:end-points-not-included" % name, "%s range (%r, %r, %d) nodes %r" % (name, lo, hi, n, xs), [lo, hi], [xs[0], xs[-1]])
        ok = False
    tol = 3 * Fraction(math.ulp(max(abs(lo), abs(hi))))
    flo, fhi = Fraction(lo), Fraction(hi)
    for i in range(1, n - 1):
        e = flo + (fhi - flo) * i / (n - 1)
        if abs(Fraction(xs[i]) - e) > tol:
            V(R.viol, "%s:grid-not-evenly-spaced" % name, "%s range (%r, %r, %d) node %d = %r" % (name, lo, hi, n, i, xs[i]), float(e), xs[i])
            ok = False
            break
    return ok


def _coded():
    """Injective integer-coded pure function of the argument tuple + its table."""
    table = {}

    def code(*a):
        k = tuple(float(v) for v in a)
        if k not in table:
            table[k] = float(len(table) + 1)
        return table[k]
    return code, table


def _range_classes(R, rngs, ns):
    for (lo, hi), n in zip(rngs, ns):
        R.classes.append("sampler:n=1" if n == 1 else "sampler:n>1")
        if lo == hi:
            R.classes.append("sampler:min==max")
        if hi < 0:
            R.classes.append("sampler:negative-range")


def _sample_ranges(R, name, fn, dim, rngs, nmax, vector):
    """All count tuples for fixed ranges."""
    import numpy as np
    from raysect.core.math import Vector3D
    reversed_ = any(lo > hi for lo, hi in rngs)
    R.classes.append(name)
    # small counts in full product, plus counts whose step does not round-trip ((n-1) * ((hi-lo)/(n-1)) != hi-lo,
    # e.g. 50, 99, 104 on a unit range) on one axis at a time: there "includes both end points" is not automatic
    big = (50, 99, 104) if nmax <= 4 else (7, 11, 49, 50, 99, 101, 104, 256)
    tuples = list(itertools.product(range(1, nmax + 1), repeat=dim))
    for ax in range(dim):
        for b in big:
            t = [2] * dim
            t[ax] = b
            tuples.append(tuple(t))
    for ns in tuples:
        code, table = _coded()
        ncalls = [0]
        if vector:
            def f(*a):
                ncalls[0] += 1
                c = code(*a)
                return Vector3D(c, c + 0.25, -c - 0.5)
        else:
            def f(*a):
                ncalls[0] += 1
                return code(*a)
        args = [(lo, hi, n) for (lo, hi), n in zip(rngs, ns)]
        R.n += 1
        try:
            res = fn(f, *args)
        except ValueError as e:
            if reversed_:
                R.classes.append("sampler:reversed-rejected")
                continue
            V(R.viol, "%s:raises:ValueError" % name, "%s%r raised %r" % (name, args, e), "arrays", repr(e))
            continue
        except Exception as e:  # noqa
            V(R.viol, "%s:raises:%s" % (name, type(e).__name__), "%s%r raised %r" % (name, args, e), "arrays", repr(e))
            continue
        _range_classes(R, rngs, ns)
        if len(res) != dim + 1:
            V(R.viol, "%s:result-arity" % name, "%s returned %d objects" % (name, len(res)), dim + 1, len(res))
            continue
        axes, v = res[:dim], np.asarray(res[dim])
        good = True
        for d in range(dim):
            good = _grid_check(R, name, d, rngs[d][0], rngs[d][1], ns[d], axes[d]) and good
        shape = tuple(ns) + ((3,) if vector else ())
        if v.shape != shape:
            V(R.viol, "%s:value-shape" % name, "%s%r returned values of shape %r" % (name, args, v.shape), list(shape), list(v.shape))
            continue
        if not good:
            continue
        total = 1
        for n in ns:
            total *= n
        if ncalls[0] < len({tuple(float(axes[d][i[d]]) for d in range(dim)) for i in itertools.product(*[range(n) for n in ns])}):
            V(R.viol, "%s:too-few-evaluations" % name, "%s%r evaluated the function %d times for %d grid nodes" % (name, args, ncalls[0], total), total, ncalls[0])
        bad = None
        for idx in itertools.product(*[range(n) for n in ns]):
            pt = tuple(float(axes[d][idx[d]]) for d in range(dim))
            c = table.get(pt)
            if vector:
                obs = tuple(float(t) for t in v[idx])
                exp = None if c is None else (c, c + 0.25, -c - 0.5)
            else:
                obs = float(v[idx])
                exp = c
            if exp is None or obs != exp:
                bad = (idx, pt, exp, obs)
                break
        if bad:
            V(R.viol, "%s:value-index-order" % name, "%s%r: values%r = %r but f(node %r) = %r" % (name, args, list(bad[0]), bad[3], bad[1], bad[2]), bad[2], bad[3])
        key = (name, tuple(tuple(r) for r in rngs), ns)
        R.states.add(key)
        if total >= 2:
            R.nontrivial.add(key)
    R.summary.append(name)


def _run_sample1d(R, case, A3):
    from cherab.core.math import sample1d
    rngs = [tuple(r) for r in case["sel"]]
    _sample_ranges(R, "sample1d", sample1d, 1, rngs, case["nmax"], False)


def _run_sample2d(R, case, A3):
    from cherab.core.math import sample2d, samplevector2d
    rngs = [tuple(r) for r in case["sel"]]
    _sample_ranges(R, "sample2d", sample2d, 2, rngs, case["nmax"], False)
    _sample_ranges(R, "samplevector2d", samplevector2d, 2, rngs, case["nmax"], True)


def _run_sample3d(R, case, A3):
    from cherab.core.math import sample3d, samplevector3d
    rngs = [tuple(r) for r in case["sel"]]
    _sample_ranges(R, "sample3d", sample3d, 3, rngs, case["nmax"], False)
    _sample_ranges(R, "samplevector3d", samplevector3d, 3, rngs, case["nmax"], True)


def _mk_f(vector):
    from raysect.core.math import Vector3D
    code, table = _coded()
    if vector:
        return (lambda *a: Vector3D(code(*a), code(*a) + 0.25, -code(*a) - 0.5)), table
    return code, table


def _expect_val(table, pt, vector):
    c = table.get(tuple(float(v) for v in pt))
    if c is None:
        return None
    return (c, c + 0.25, -c - 0.5) if vector else c


def _run_sample_points(R, case, A3):
    import numpy as np
    import cherab.core.math as cm
    specs = [("sample1d_points", 1, False), ("sample2d_points", 2, False), ("sample3d_points", 3, False),
             ("samplevector2d_points", 2, True), ("samplevector3d_points", 3, True)]
    for name, dim, vector in specs:
        fn = getattr(cm, name)
        R.classes.append(name)
        alph = A_FULL if dim < 3 else A_SUB
        pts = list(itertools.product(alph, repeat=dim))
        for variant in ("list", "array", "reversed"):
            f, table = _mk_f(vector)
            P = pts[::-1] if variant == "reversed" else pts
            if dim == 1:
                arg = [p[0] for p in P]
            else:
                arg = [list(p) for p in P]
            if variant == "array":
                arg = np.array(arg, dtype=float)
            R.n += 1
            try:
                v = np.asarray(fn(f, arg))
            except Exception as e:  # noqa
                V(R.viol, "%s:raises:%s" % (name, type(e).__name__), "%s raised %r" % (name, e), "array", repr(e))
                continue
            shape = (len(P),) + ((3,) if vector else ())
            if v.shape != shape:
                V(R.viol, "%s:value-shape" % name, "%s returned shape %r" % (name, v.shape), list(shape), list(v.shape))
                continue
            for i, p in enumerate(P):
                exp = _expect_val(table, p, vector)
                obs = tuple(float(t) for t in v[i]) if vector else float(v[i])
                if exp is None or obs != exp:
                    V(R.viol, "%s:value-index-order" % name, "%s: values[%d] = %r but f(point %r) = %r" % (name, i, obs, p, exp), exp, obs)
                    break
            R.states.add((name, variant))
            R.nontrivial.add((name, variant))
    R.summary.append("points")


def _run_sample_grid(R, case, A3):
    import numpy as np
    import cherab.core.math as cm
    specs = [("sample2d_grid", 2, False), ("sample3d_grid", 3, False), ("samplevector2d_grid", 2, True), ("samplevector3d_grid", 3, True)]
    axes_pool = [[0.5], [-1.0, 2.5], [2.5, -0.0, -1e-20], A_SUB, [1.0, 1.0, 1.0], A_FULL[::-1]]
    for name, dim, vector in specs:
        fn = getattr(cm, name)
        R.classes.append(name)
        for axes in itertools.product(axes_pool, repeat=dim):
            f, table = _mk_f(vector)
            R.n += 1
            try:
                v = np.asarray(fn(f, *[np.array(a, dtype=float) for a in axes]))
            except Exception as e:  # noqa
                V(R.viol, "%s:raises:%s" % (name, type(e).__name__), "%s raised %r" % (name, e), "array", repr(e))
                continue
            shape = tuple(len(a) for a in axes) + ((3,) if vector else ())
            if v.shape != shape:
                V(R.viol, "%s:value-shape" % name, "%s returned shape %r" % (name, v.shape), list(shape), list(v.shape))
                continue
            for idx in itertools.product(*[range(len(a)) for a in axes]):
                p = tuple(axes[d][idx[d]] for d in range(dim))
                exp = _expect_val(table, p, vector)
                obs = tuple(float(t) for t in v[idx]) if vector else float(v[idx])
                if exp is None or obs != exp:
                    V(R.viol, "%s:value-index-order" % name, "%s: values%r = %r but f(node %r) = %r" % (name, list(idx), obs, p, exp), exp, obs)
                    break
            key = (name, tuple(len(a) for a in axes), tuple(axes_pool.index(a) for a in axes))
            R.states.add(key)
            R.nontrivial.add(key)
    R.summary.append("grid")
