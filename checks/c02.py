"""C02 - line shapes are normalised (engine L: exhaustive input lattice, closed-form reference).

Every lattice point is a depth-1 history  construct model -> add_line(radiance, point, direction, Spectrum(lo, hi, bins))
on a zeroed spectrum.  The reference (mc/refs/lineshape.py) writes each line as a list of normalised Gaussian /
modified-Lorentzian components with weights that sum to one, straight from the documented formulae, and integrates
them over the bins with erf / 2F1 closed forms.

Oracles (per lattice point)
  bin-average   every bin == radiance * sum_i w_i * (bin average of unit profile i)
  integral      sum(samples) * delta == radiance * fraction of the profile inside the window
  pi+sigma      spectrum('pi') + spectrum('sigma') == spectrum('no') bin by bin
  component-ratio  integrals over windows isolating single components are in the stated ratios
  zero-width-line-adds  a line without width leaves the spectrum exactly untouched
  negative-sample, adds-to-existing-spectrum (second add_line on the same spectrum doubles it)
"""
import itertools
import math

PROPERTY = "C02"
DRIVER = ("each LineShapeModel / BeamLineShapeModel built on a uniform plasma (Maxwellians of constant n, T, v; constant B) "
          "and the two primitives add_gaussian_line / add_lorentzian_line; one add_line() call per lattice point")

# ------------------------------------------------------------------------------------------------ alphabet
ELEMENTS = {"H": ("hydrogen", 0, (3, 2), 656.279), "D": ("deuterium", 0, (3, 2), 656.104), "C": ("carbon", 5, (8, 7), 529.053)}
TS = {"quick": [-1.0, 0.0, 1e-4, 0.5, 5e3], "thorough": [-1.0, 0.0, 1e-4, 0.5, 50.0, 5e3]}
MASS = {"quick": ["D", "C"], "thorough": ["H", "D", "C"]}
VEL = {"quick": [(0.0, 0.0, 0.0), (5e4, 0.0, 0.0)],
       "thorough": [(0.0, 0.0, 0.0), (5e4, 0.0, 0.0), (-3e4, 4e4, 1e4), (0.0, -5e4, 0.0), (1e4, 1e4, -5e4)]}
BFIELD = {"quick": [(0.0, 0.0, 0.0), (0.0, 5.0, 0.0), (1.0 / 3, -1.0 / 6, 1.0 / 3)],
          "thorough": [(0.0, 0.0, 0.0), (0.0, 5.0, 0.0), (1.0 / 3, -1.0 / 6, 1.0 / 3), (3.0, 0.0, -4.0), (0.0, 0.0, 0.5)]}
RADIANCE = [1.0, 0.0, 3.7e5]
BINS = {"quick": [1, 2, 7, 64], "thorough": [1, 2, 3, 7, 64, 257]}
BINS_LORENTZ = {"quick": [1, 2, 7, 64, 256], "thorough": [1, 2, 3, 7, 64, 256, 600]}
POLS = ["no", "pi", "sigma"]
MULTIPLETS = {
    "m1": [[0.0], [1.0]],
    "m2": [[-0.31, 0.27], [0.25, 0.75]],
    "m5": [[-0.701, -0.078, 0.144, 0.269, 1.482], [0.205, 0.562, 0.175, 0.029, 0.029]],
    # the same five components listed in descending and in no particular order (the constructor does not ask for sorted tables)
    "m5desc": [[1.482, 0.269, 0.144, -0.078, -0.701], [0.029, 0.029, 0.175, 0.562, 0.205]],
    "m5mix": [[0.144, 1.482, -0.701, 0.269, -0.078], [0.175, 0.029, 0.205, 0.029, 0.562]],
}
PZT = {"abg1": (0.04, 0.5, 0.25), "abg2": (0.02, 0.0, 1.0)}
# Zeeman structures: (wavelength offset from rest wavelength [nm], d wavelength / dB [nm/T], ratio at B=0, d ratio / dB)
STRUCTURES = {
    "s111": {"pi": [(0.0, 0.0, 1.0, 0.0)], "sigma+": [(0.0, 0.02, 2.0, 0.0)], "sigma-": [(0.0, -0.02, 2.0, 0.0)]},
    "s222": {"pi": [(-0.03, 0.001, 0.7, 0.02), (0.03, -0.001, 1.1, 0.0)],
             "sigma+": [(0.08, 0.02, 3.0, 0.0), (0.14, 0.025, 1.0, 0.5)],
             "sigma-": [(-0.08, -0.02, 3.0, 0.0), (-0.14, -0.025, 1.0, 0.5)]},
    "s333": {"pi": [(-0.05, 0.002, 1.0, 0.0), (0.0, 0.0, 2.0, 0.1), (0.05, -0.002, 1.0, 0.0)],
             "sigma+": [(0.1, 0.02, 0.5, 0.0), (0.16, 0.022, 0.25, 0.01), (0.22, 0.024, 0.125, 0.0)],
             "sigma-": [(-0.1, -0.02, 0.4, 0.0), (-0.17, -0.022, 0.3, 0.0), (-0.22, -0.03, 0.2, 0.02)]},
}
STARK_COEFF = {"quick": [(3.71e-18, 0.7665, 0.064)], "thorough": [(3.71e-18, 0.7665, 0.064), (8.4e-17, 0.7, 0.03)]}
STARK_NETE = [(0.0, 10.0), (1e19, 0.0), (1e19, 1.0), (1e21, 1.0), (1e20, 100.0), (1e23, 1.0)]
MSE = {
    "energy": {"quick": [6e4], "thorough": [6e4, 1e4]},
    "element": {"quick": ["D"], "thorough": ["D", "H"]},
    "temperature": [0.0, 1.0, 10.0],
    "b": {"quick": [(0.0, 5.0, 0.0), (0.0, 0.0, 0.0)], "thorough": [(0.0, 5.0, 0.0), (0.0, 0.0, 0.0), (1.0 / 3, -2.0 / 3, 2.0 / 3)]},
    "beam_dir": [(0.0, 0.0, 1.0), (0.0, 3.0, 0.0), (1.0, 1.0, 1.0)],
    "ne": {"quick": [1e19], "thorough": [1e19, 4e19]},
    "ratios": ["const", "density"],
}
PRIM_RATIOS = {"quick": [0.1, 0.5, 1.0, 2.0, 5.0, 16.0, 100.0], "thorough": [0.1, 0.25, 0.5, 1.0, 2.0, 3.0, 4.0, 5.0, 8.0, 16.0, 30.0, 50.0, 100.0]}
PRIM_WIDTHS = {"quick": [0.3], "thorough": [0.3, 0.004]}

ALPHABET = {
    "model": ["GaussianLine", "MultipletLineShape x {1,2,5 components; ascending, descending and unordered tables}", "ZeemanTriplet", "ParametrisedZeemanTriplet x 2 (alpha,beta,gamma)",
              "ZeemanMultiplet x {1+1+1, 2+2+2, 3+3+3 components, unnormalised B-dependent ratios}",
              "StarkBroadenedLine x coefficients x (n_e,T_e)", "BeamEmissionMultiplet", "add_gaussian_line", "add_lorentzian_line"],
    "species temperature eV": TS, "element (mass, rest wavelength)": MASS, "bulk velocity m/s": VEL, "bulk velocity (StarkBroadenedLine)": "first three of the list", "B vector T": BFIELD,
    "observation direction": "B=0: (1,0,0), (-2,1,2); B>0: 2.5*b, -b, 0.7*e1 (perpendicular), 30 deg and 60 deg oblique (not normalised)",
    "radiance": RADIANCE, "radiance (StarkBroadenedLine)": "1 on every grid; 0 and 3.7e5 on the 7-bin grids", "polarisation": POLS, "bins": BINS, "bins (lines with a Lorentzian part)": BINS_LORENTZ,
    "window class": ["contains", "low-straddle (edge through the core)", "high-straddle", "inside-core", "between (edge between two components)",
                     "miss-low", "miss-high", "cutoff-edge-low (window max on the lower cut-off)", "cutoff-edge-high", "isolate (one component)"],
    "stark (n_e, T_e)": STARK_NETE, "stark coefficients": STARK_COEFF, "mse": MSE,
    "primitive bin-width/FWHM scan": PRIM_RATIOS,
    "bin width / FWHM class (Lorentzian parts)": ["fine <= 0.5", "medium", "coarse >= 5"],
}
BOUND = {"quick": "full product of the quick alphabets (depth-1 histories)", "thorough": "full product of the thorough alphabets (depth-1 histories)"}
RULE = ("one case per (model variant, plasma state); inside a case the full product direction x window x bins x radiance x polarisation; "
        "non-trivial = lattice point whose reference spectrum is not identically zero (the line has a width, radiance > 0 and the window "
        "reaches its support); distinct non-trivial sub-cases are keyed by (model variant, profile branch, B class, Doppler class, "
        "polarisation, window class, bins, radiance)")
ASSUMPTIONS = [
    "scipy.special.erf / hyp2f1 are accurate to ~1e-15 (hyp2f1-based Stark CDF cross-checked against scipy.integrate.quad in setup_worker)",
    "positions of components (physical constants, MSE Stark splitting factor 2.77e-8 nm/(V/m), Doppler shift lambda(1+v.n/c)) are taken from the "
    "documentation; the property is about how much radiance each component carries and how it is spread over bins",
    "every multiplet / Zeeman component has the thermal width evaluated at the rest wavelength of the unresolved line (as documented in the code)",
    "MSE: sigma1_to_sigma0 = (sigma+1 + sigma-1)/sigma0, sigma_to_pi = sum(sigma)/sum(pi), pi2_to_pi3 and pi4_to_pi3 line to line",
    "tolerances: 1e-9 of the peak bin / of the integral for erf-based shapes; 2e-4 where a Lorentzian part is integrated by "
    "GaussianQuadrature(relative_tolerance=1e-5) (20 x the documented per-bin stopping tolerance); comparison scale = radiance * sum_i w_i min(peak_i, 1/delta)",
    "the bin containing the +-50 FWHM cut-off is integrated without truncation by the implementation (excess <= 2.5e-4 * radiance per side, "
    "1e-5 typical): below the Lorentzian tolerance on fine/medium grids, not reported separately",
    "uniform plasma: profiles that vary in space are not needed, add_line sees one point",
]
REQUIRED_CLASSES = (
    ["model:%s" % m for m in ("GaussianLine", "MultipletLineShape", "ZeemanTriplet", "ParametrisedZeemanTriplet", "ZeemanMultiplet",
                              "StarkBroadenedLine", "BeamEmissionMultiplet", "add_gaussian_line", "add_lorentzian_line")]
    + ["window:%s" % w for w in ("contains", "low-straddle", "high-straddle", "inside-core", "between", "miss-low", "miss-high",
                                 "cutoff-edge-low", "cutoff-edge-high", "isolate")]
    + ["binw/fwhm=fine", "binw/fwhm=medium", "binw/fwhm=coarse", "stark:gauss", "stark:lorentz", "stark:voigt",
       "pol:no", "pol:pi", "pol:sigma", "B:0", "B:par", "B:perp", "B:oblique", "doppler:zero", "doppler:red", "doppler:blue", "doppler:across",
       "zero-width:Ts=neg", "zero-width:Ts=zero", "zero-width:beam-T=zero", "zero-width:width=neg", "zero-width:width=zero",
       "radiance:0", "ratio-checked", "pi+sigma-checked", "adds-checked", "partial-window", "integrator-history", "stark-sequence", "evaluation-sequence"]
    + ["ratio-checked:%s" % m for m in ("MultipletLineShape", "ZeemanTriplet", "ParametrisedZeemanTriplet", "ZeemanMultiplet",
                                        "StarkBroadenedLine", "BeamEmissionMultiplet")]
)
BUDGET_S = {"quick": 600, "thorough": 3000}   # generous: the machine is shared; CPU cost is ~1.5 / ~25 core-minutes

EPS_G = 1e-9      # erf-based shapes
SMALL_L = 5e-3    # see _compare: residual false convergence of the quadrature stopping rule stays below this fraction of the peak bin
EPS_L = 2e-4      # Lorentzian parts: GaussianQuadrature rtol 1e-5 per bin on successive iterates, allow 20x
POINT = (0.3, -0.2, 0.1)
WINDOW_ORDER = ["contains", "isolate", "inside-core", "low-straddle", "high-straddle", "between", "cutoff-edge-low", "cutoff-edge-high",
                "miss-low", "miss-high", "fixed"]


# ------------------------------------------------------------------------------------------------ cases
def cases(tier):
    out = []
    ts, mass, vel, bf = TS[tier], MASS[tier], VEL[tier], BFIELD[tier]
    for t, m, (iv, v) in itertools.product(ts, mass, enumerate(vel)):
        base = {"ts": t, "el": m, "vel": list(v)}
        out.append(dict(base, model="GaussianLine", label="GaussianLine"))
        for k in MULTIPLETS:
            out.append(dict(base, model="MultipletLineShape", variant=k, label="MultipletLineShape"))
        for b in bf:
            bb = dict(base, b=list(b))
            out.append(dict(bb, model="ZeemanTriplet", label="ZeemanTriplet"))
            for k in PZT:
                out.append(dict(bb, model="ParametrisedZeemanTriplet", variant=k, label="ParametrisedZeemanTriplet"))
            for k in STRUCTURES:
                out.append(dict(bb, model="ZeemanMultiplet", variant=k, label="ZeemanMultiplet"))
            if iv >= 3:
                continue        # Stark model: first three bulk velocities only (cost)
            for co in STARK_COEFF[tier]:
                for ne, te in STARK_NETE:
                    out.append(dict(bb, model="StarkBroadenedLine", stark=list(co), ne=ne, te=te, label="StarkBroadenedLine"))
    for e, el, tb, b, bd, ne, rt in itertools.product(MSE["energy"][tier], MSE["element"][tier], MSE["temperature"], MSE["b"][tier],
                                                      MSE["beam_dir"], MSE["ne"][tier], MSE["ratios"]):
        out.append({"model": "BeamEmissionMultiplet", "label": "BeamEmissionMultiplet", "beam_energy": e, "el": el, "beam_temperature": tb,
                    "b": list(b), "beam_dir": list(bd), "ne": ne, "te": 20.0, "ratios": rt})
    for prim in ("add_gaussian_line", "add_lorentzian_line"):
        for w in PRIM_WIDTHS[tier]:
            for r in PRIM_RATIOS[tier]:
                out.append({"model": prim, "label": prim, "width": w, "ratio": r})
        for w in (0.0, -0.3):
            out.append({"model": prim, "label": prim, "width": w, "ratio": 1.0})
    # Stark models built with the constructor's default integrator, evaluated alternately with different Lorentzian widths
    for i, b in enumerate(bf[:2]):
        out.append({"model": "stark-sequence", "label": "StarkBroadenedLine", "b": list(b), "ts": ts[min(3, len(ts) - 1)], "el": mass[0], "vel": list(vel[0]),
                    "stark": list(STARK_COEFF[tier][0])})
    # one set of models evaluated at points of different magnetic field, in every order
    for m, variant in SEQ_MODELS:
        c = {"model": "eval-sequence", "seq_model": m, "label": m, "ts": ts[min(3, len(ts) - 1)], "el": mass[0], "vel": list(vel[0])}
        if variant:
            c["variant"] = variant
        if m == "StarkBroadenedLine":
            c["stark"] = list(STARK_COEFF[tier][0])
        out.append(c)
    # the per-bin integrator of the Lorentzian part has setters: every way of reaching one configuration must
    # integrate like an integrator constructed with it (engine-H style family inside this lattice check)
    finals = INTEGRATOR_FINALS[tier]
    for fi in range(len(finals)):
        for gi in range(-1, len(finals)):
            if gi != fi:
                out.append({"model": "integrator-history", "label": "GaussianQuadrature", "final": fi, "start": gi})
    for c in out:
        c["tier"] = tier
    return out


INTEGRATOR_FINALS = {
    "quick": [(1, 50, 1e-5), (4, 40, 1e-5), (6, 6, 1e-5), (2, 10, 1e-8)],
    "thorough": [(1, 50, 1e-5), (4, 40, 1e-5), (6, 6, 1e-5), (2, 10, 1e-8), (3, 30, 1e-3), (12, 12, 1e-5), (1, 3, 1e-5)],
}


def _run_stark_sequence(case):
    """Several StarkBroadenedLine models that rely on the constructor's default integrator are evaluated alternately (different
    electron densities = different Lorentzian widths); every spectrum must equal that of an identically configured model that was
    given its own new integrator (those are the models the lattice part compares with the closed forms)."""
    import numpy as np
    from raysect.optical import Spectrum
    nes = [(2e20, 5.0), (2e19, 5.0), (6e20, 20.0)]
    base = {k: case[k] for k in ("b", "ts", "el", "vel", "stark")}
    own, dflt = [], []
    for ne, te in nes:
        c1 = dict(base, model="StarkBroadenedLine", ne=ne, te=te)
        own.append(_build(c1))
        dflt.append(_build(dict(c1, default_integrator=True))[0])
    viol, n, nontrivial = [], 0, []
    d = (0.3, 0.5, -0.8)
    order = [0, 1, 2, 0, 1, 2, 1, 0]
    for step, i in enumerate(order):
        adders_own, p = own[i]
        wl = p["wl"]
        for pol in POLS:
            if pol not in adders_own:
                continue
            for (lo, hi, bins) in ((wl - 6.0, wl + 6.0, 64), (wl - 0.7, wl + 0.9, 7)):
                n += 1
                a = np.array(dflt[i][pol](1.5, d, Spectrum(lo, hi, bins)).samples, dtype=float)
                b = np.array(adders_own[pol](1.5, d, Spectrum(lo, hi, bins)).samples, dtype=float)
                nontrivial.append(("stark-seq", tuple(case["b"]), step, pol, bins))
                if not np.allclose(a, b, rtol=1e-12, atol=1e-15 * max(float(b.max()), 1e-300)):
                    viol.append({"sig": "C02:StarkBroadenedLine:default-integrator:evaluation-sequence:differs-from-model-with-its-own-integrator",
                                 "what": "step %d of the alternating sequence %s (n_e = %g): model built with the default integrator vs the same model with a new integrator; pol=%s, %d bins"
                                         % (step, order, nes[i][0], pol, bins), "expected": b[:8].tolist(), "observed": a[:8].tolist()})
                    break
    return {"viol": viol[:3], "classes": ["stark-sequence"], "n": n, "outcome": ("stark-sequence", tuple(case["b"]), n, len(viol)),
            "transitions": n, "nontrivial": nontrivial}


SEQ_B = [(0.0, 5.0, 0.0), (1.0, -0.5, 1.0)]
SEQ_PTS = [(-0.4, 0.2, 0.1), (0.3, -0.2, 0.1)]     # x < 0: first field; x >= 0: second field
SEQ_MODELS = [("GaussianLine", None), ("MultipletLineShape", "m5"), ("ZeemanTriplet", None), ("ParametrisedZeemanTriplet", "abg1"),
              ("ZeemanMultiplet", "s111"), ("ZeemanMultiplet", "s222"), ("ZeemanMultiplet", "s333"), ("StarkBroadenedLine", None)]


def _run_eval_sequence(case):
    """ONE set of models (all polarisations of one model class, sharing whatever the class shares: Zeeman structure, integrator) in
    a plasma whose magnetic field differs between two half-spaces.  Every sequence of three evaluations over (polarisation, point)
    is executed on a newly built set; each spectrum must equal the one a newly built set in a *uniform* plasma of that field gives -
    those are the models the lattice part compares with the closed forms."""
    import numpy as np
    from raysect.optical import Spectrum
    base = {k: case[k] for k in ("ts", "el", "vel") if k in case}
    base["model"] = case["seq_model"]
    if case.get("variant"):
        base["variant"] = case["variant"]
    if case["seq_model"] == "StarkBroadenedLine":
        base.update(stark=list(case["stark"]), ne=2e20, te=5.0)
    d = (0.3, 0.5, -0.8)
    ref, wl = {}, None
    for k, b in enumerate(SEQ_B):
        adders, p = _build(dict(base, b=list(b)))
        wl = p["wl"]
        for pol in adders:
            ref[(pol, k)] = np.array(adders[pol](1.5, d, Spectrum(wl - 1.2, wl + 1.5, 54)).samples, dtype=float)
    ops = sorted(ref)
    distinct = {pol: not np.allclose(ref[(pol, 0)], ref[(pol, 1)], rtol=1e-9, atol=0) for pol, _ in ops}
    viol, n, nontrivial = [], 0, []
    L = 3 if len(ops) > 2 else 4
    tol_r = 1e-12 if case["seq_model"] != "StarkBroadenedLine" else 1e-9
    for seq in itertools.product(range(len(ops)), repeat=L):
        adders, _ = _build(dict(base, b_by_side=[list(v) for v in SEQ_B]))
        for step, oi in enumerate(seq):
            pol, k = ops[oi]
            n += 1
            a = np.array(adders[pol](1.5, d, Spectrum(wl - 1.2, wl + 1.5, 54), at=SEQ_PTS[k]).samples, dtype=float)
            b = ref[(pol, k)]
            if step and distinct[pol]:
                nontrivial.append(("eval-seq", case["seq_model"], case.get("variant"), seq[:step + 1]))
            if not np.allclose(a, b, rtol=tol_r, atol=1e-15 * max(float(b.max()), 1e-300)):
                if len(viol) < 3:
                    viol.append({"sig": "C02:%s:evaluation-sequence:spectrum-depends-on-earlier-evaluations" % case["seq_model"],
                                 "what": "evaluation %d of the sequence %s on one set of models (B = %s for x < 0, %s for x >= 0): pol=%s at %s differs from a new model in a uniform plasma of that field"
                                         % (step + 1, [ops[j] for j in seq], SEQ_B[0], SEQ_B[1], pol, SEQ_PTS[k]), "expected": b[:10].tolist(), "observed": a[:10].tolist()})
                break
    return {"viol": viol, "classes": ["evaluation-sequence", "evaluation-sequence:" + case["seq_model"]], "n": n,
            "outcome": ("eval-sequence", case["seq_model"], case.get("variant"), n, len(viol)), "transitions": n, "nontrivial": nontrivial}


def _run_integrator_history(case):
    """All orders of the three setters (with an optional integration before each) leading from a start
    configuration (-1 = default constructor) to the final one, compared with an integrator constructed with the
    final configuration: getters, two direct integrals and the bins of a Lorentzian line."""
    import math
    import numpy as np
    from raysect.optical import Spectrum
    from cherab.core.math.integrators import GaussianQuadrature
    from cherab.core.model.lineshape.stark import add_lorentzian_line
    tier = case.get("tier", "quick")
    finals = INTEGRATOR_FINALS[tier]
    fmin, fmax, frt = finals[case["final"]]
    start = None if case["start"] < 0 else finals[case["start"]]

    def peaked(x):
        return 1.0 / (abs(x - 0.37) ** 2.5 + 0.05)

    def observe(q):
        out = []
        for f in (math.exp, peaked):
            try:
                q.integrand = f
                out.append(q(0.0, 1.0))
            except Exception as e:  # noqa - an integrator that raises is an observation, compared like a value
                out.append("EXC:" + type(e).__name__)
        try:
            sp = Spectrum(499.0, 501.0, 40)
            add_lorentzian_line(2.0, 500.03, 0.3, sp, q)
            out += [float(v) for v in sp.samples]
        except Exception as e:  # noqa
            out += ["EXC:" + type(e).__name__] * 40
        return out

    ref_q = GaussianQuadrature(relative_tolerance=frt, max_order=fmax, min_order=fmin)
    ref = observe(ref_q)
    ref2 = observe(GaussianQuadrature(relative_tolerance=frt, max_order=fmax, min_order=fmin))
    viol, classes, nontrivial = [], ["integrator-history"], []
    if ref != ref2:
        return {"harness_error": "two identically constructed integrators disagree"}
    exact = math.e - 1.0
    # independent sanity of the reference itself: smooth integrand within 10 x rtol (or exact for a fixed order >= 6)
    if isinstance(ref[0], str) or (abs(ref[0] - exact) > max(10 * frt, 1e-12) * exact and fmax >= 6):
        viol.append({"sig": "C02:GaussianQuadrature:constructor:smooth-integral-off", "what": "integral of exp over (0,1)", "expected": exact, "observed": ref[0]})
    n = 0
    setters = ("min_order", "max_order", "relative_tolerance")
    target = {"min_order": fmin, "max_order": fmax, "relative_tolerance": frt}
    for order in itertools.permutations(setters):
        for mask in range(8):
            if start is None:
                q = GaussianQuadrature()
                cur = {"min_order": 1, "max_order": 50}
            else:
                q = GaussianQuadrature(relative_tolerance=start[2], max_order=start[1], min_order=start[0])
                cur = {"min_order": start[0], "max_order": start[1]}
            ok = True
            for i, name in enumerate(order):
                # supported changes only: the documented preconditions min <= max must hold at every step
                if name == "min_order" and target[name] > cur["max_order"]:
                    ok = False
                    break
                if name == "max_order" and target[name] < cur["min_order"]:
                    ok = False
                    break
                if (mask >> i) & 1:
                    observe(q)
                setattr(q, name, target[name])
                if name in cur:
                    cur[name] = target[name]
            if not ok:
                continue
            n += 1
            got = observe(q)
            getters = (q.min_order, q.max_order, q.relative_tolerance)
            lab = "%s:%s" % ("from-default" if start is None else "from-other-config", ">".join(x.split("_")[0] for x in order))
            nontrivial.append((case["final"], case["start"], order, mask))
            if getters != (fmin, fmax, frt):
                viol.append({"sig": "C02:GaussianQuadrature:setter-history:getters-differ", "what": lab, "expected": [fmin, fmax, frt], "observed": list(getters)})
            bad = [k for k, (a, b) in enumerate(zip(got, ref))
                   if not (a == b or (not isinstance(a, str) and not isinstance(b, str) and abs(a - b) <= 1e-13 * max(abs(a), abs(b))))]
            if bad:
                what = "integrator configured through setters (%s, integration before ops %s) integrates differently from one constructed with min_order=%d, max_order=%d, rtol=%g" % (lab, bin(mask), fmin, fmax, frt)
                kind = "direct-integral" if bad[0] < 2 else "lorentzian-line-bins"
                viol.append({"sig": "C02:GaussianQuadrature:setter-history:%s:differs-from-constructed" % kind, "what": what,
                             "expected": [ref[k] for k in bad[:4]], "observed": [got[k] for k in bad[:4]]})
    return {"viol": viol[:6], "classes": classes, "n": max(n, 1), "outcome": ("integrator-history", case["final"], case["start"], n, len(viol)),
            "transitions": 3 * n, "nontrivial": nontrivial}


def crash_label(case):
    return case.get("label", "case")


# ------------------------------------------------------------------------------------------------ worker set-up
_S = {}


def setup_worker(tier):
    import numpy as np
    from scipy.integrate import quad
    from mc.refs import lineshape as ls
    # cross-check of the reference's own closed form (hyp2f1-based CDF of the modified Lorentzian) against adaptive quadrature
    for w in (0.004, 0.3, 2.0):
        a = (0.5 * w) ** 2.5
        for x in (0.1 * w, w, 7 * w, 50 * w):
            q = quad(lambda u: 1.0 / (abs(u) ** 2.5 + a), 0.0, x, limit=800, epsabs=0, epsrel=1e-12)[0]
            c = float(ls.stark_cdf(np.array([x]), w)[0])
            if abs(q - c) > 1e-8 * abs(q):
                raise RuntimeError("reference self-check failed: stark_cdf(%g, %g) = %r, quad = %r" % (x, w, c, q))
    _S["ok"] = True


def _dirs(b):
    from mc.refs import lineshape as ls
    if ls.norm(b) == 0:
        return [(1.0, 0.0, 0.0), (-2.0, 1.0, 2.0)]
    bh = ls.unit(b)
    # deterministic orthonormal frame
    t = (1.0, 0.0, 0.0) if abs(bh[0]) < 0.9 else (0.0, 1.0, 0.0)
    e1 = ls.unit(ls.cross(bh, t))
    e2 = ls.cross(bh, e1)
    c30, s30 = math.cos(math.radians(30)), math.sin(math.radians(30))

    def comb(a, u, c, v, k):
        return tuple(k * (a * u[i] + c * v[i]) for i in range(3))
    return [comb(1, bh, 0, e1, 2.5), comb(-1, bh, 0, e1, 1.0), comb(0, bh, 1, e1, 0.7), comb(c30, bh, s30, e2, 3.0), comb(s30, bh, c30, e1, 1.0)]


def _b_class(b, d):
    from mc.refs import lineshape as ls
    if ls.norm(b) == 0:
        return "0"
    _, _, c2 = ls.zeeman_weights(b, d)
    if c2 > 1 - 1e-9:
        return "par"
    if c2 < 1e-9:
        return "perp"
    return "oblique"


def _doppler_class(v, d):
    from mc.refs import lineshape as ls
    if ls.norm(v) == 0:
        return "zero"
    p = ls.dot(v, ls.unit(d))
    if abs(p) < 1e-9 * ls.norm(v):
        return "across"
    return "red" if p > 0 else "blue"


def _windows(comps):
    """Window classes derived from the reference components (all polarisations)."""
    from mc.refs import lineshape as ls
    lo = min(c - ls.half_support(k, w) for (_, _, k, c, w, _) in comps)
    hi = max(c + ls.half_support(k, w) for (_, _, k, c, w, _) in comps)
    kk = max(ls.half_support(k, w) for (_, _, k, c, w, _) in comps)
    main = max(comps, key=lambda c: c[5])
    h = ls.core_halfwidth(main[2], main[4])
    cm = main[3]
    span = hi - lo
    win = [("contains", lo - 0.2 * kk, hi + 0.2 * kk),
           ("inside-core", cm - 0.9 * h, cm + 0.6 * h),
           ("low-straddle", cm - 0.7 * h, hi + 0.2 * kk),
           ("high-straddle", lo - 0.2 * kk, cm + 1.3 * h)]
    centres = sorted({c[3] for c in comps})
    if len(centres) >= 2:
        win.append(("between", lo - 0.2 * kk, 0.5 * (centres[0] + centres[1])))
    win += [("cutoff-edge-low", lo - kk, lo), ("cutoff-edge-high", hi, hi + kk),
            ("miss-low", lo - kk - 0.5 * span, lo - 0.01 * kk), ("miss-high", hi + 0.01 * kk, hi + kk + 0.5 * span)]
    return win


def _isolating(comps):
    """[(names, lo, hi, weight)] for groups of components (same centre) whose support is disjoint from every other group."""
    from mc.refs import lineshape as ls
    groups = {}
    for (n, _, k, c, w, wg) in comps:
        g = groups.setdefault(c, {"names": [], "lo": c, "hi": c, "w": 0.0})
        g["names"].append(n)
        g["lo"] = min(g["lo"], c - ls.half_support(k, w))
        g["hi"] = max(g["hi"], c + ls.half_support(k, w))
        g["w"] += wg
    gl = sorted(groups.values(), key=lambda g: g["lo"])
    if len(gl) < 2:
        return []
    out = []
    for i, g in enumerate(gl):
        m = 0.02 * (g["hi"] - g["lo"])
        a, b = g["lo"] - m, g["hi"] + m
        if all(j == i or o["hi"] < a or o["lo"] > b for j, o in enumerate(gl)):
            out.append(("+".join(sorted(x.split(":")[0] for x in g["names"])), a, b, g["w"]))
    return out if len(out) >= 2 else []


# ------------------------------------------------------------------------------------------------ real objects
def _element(name):
    from cherab.core.atomic import elements
    return getattr(elements, ELEMENTS[name][0])


def _build(case):
    """Returns (adders, params): adders[pol] = f(radiance, direction, spectrum) -> Spectrum calling the real model."""
    from raysect.core import Point3D, Vector3D
    from raysect.core.math.function.float import Constant3D
    from raysect.core.math.function.vector3d import Constant3D as ConstantVector3D
    from cherab.core import Plasma, Species, Maxwellian, Beam, Line, AtomicData
    from cherab.core.atomic import ZeemanStructure
    from cherab.core import model as cm
    from cherab.core.math.integrators import GaussianQuadrature
    from mc.refs import lineshape as ls

    model = case["model"]
    pt = Point3D(*POINT)
    if model in ("add_gaussian_line", "add_lorentzian_line"):
        from cherab.core.model.lineshape.gaussian import add_gaussian_line
        from cherab.core.model.lineshape.stark import add_lorentzian_line
        gq = GaussianQuadrature()
        p = {"centre": 500.0, "width": case["width"]}
        if model == "add_gaussian_line":
            return {"no": lambda rad, d, s, p=p: add_gaussian_line(rad, p["centre"], p["width"], s)}, p
        return {"no": lambda rad, d, s, p=p: add_lorentzian_line(rad, p["centre"], p["width"], s, gq)}, p

    el = _element(case["el"])
    _, charge, trans, wl = ELEMENTS[case["el"]]
    line = Line(el, charge, trans)
    plasma = Plasma(parent=None)
    if case.get("b_by_side"):
        # two half-spaces with different fields: one set of models can then be evaluated at points of different B
        bneg, bpos = (Vector3D(*v) for v in case["b_by_side"])
        plasma.b_field = lambda x, y, z, bneg=bneg, bpos=bpos: (bneg if x < 0 else bpos)
    else:
        plasma.b_field = ConstantVector3D(Vector3D(*case.get("b", (0.0, 0.0, 0.0))))
    ne, te = case.get("ne", 1e19), case.get("te", 20.0)
    plasma.electron_distribution = Maxwellian(Constant3D(ne), Constant3D(te), ConstantVector3D(Vector3D(0, 0, 0)), 9.1093837015e-31)
    ad = AtomicData()

    if model == "BeamEmissionMultiplet":
        plasma.composition = [Species(el, 1, Maxwellian(Constant3D(1e19), Constant3D(20.0), ConstantVector3D(Vector3D(0, 0, 0)),
                                                         el.atomic_weight * ls.ATOMIC_MASS))]
        beam = Beam()
        beam.plasma = plasma
        beam.energy = case["beam_energy"]
        beam.temperature = case["beam_temperature"]
        beam.element = el
        if case["ratios"] == "const":
            rat = (0.56, 0.706, 0.314, 0.728)
            fns = rat
        else:
            lg = math.log10(ne / 1e18)
            rat = (0.3 + 0.05 * lg + 1e-6 * case["beam_energy"], 0.5 + 0.1 * lg, 0.2 + 0.05 * lg, 0.9 - 0.07 * lg)
            fns = (lambda n, e: 0.3 + 0.05 * math.log10(n / 1e18) + 1e-6 * e, lambda n: 0.5 + 0.1 * math.log10(n / 1e18),
                   lambda n: 0.2 + 0.05 * math.log10(n / 1e18), lambda n: 0.9 - 0.07 * math.log10(n / 1e18))
        mdl = cm.BeamEmissionMultiplet(line, wl, beam, ad, *fns)
        bd = Vector3D(*case["beam_dir"])
        p = {"wl": wl, "beam_temperature": case["beam_temperature"], "te": te, "ne": ne, "beam_energy": case["beam_energy"],
             "beam_dir": tuple(case["beam_dir"]), "b": tuple(case["b"]), "beam_mass": el.atomic_weight, "ratios": rat}
        keep = (plasma, beam)
        return {"no": lambda rad, d, s, keep=keep: mdl.add_line(rad, Point3D(0.1, 0.2, 0.3), pt, bd, Vector3D(*d), s)}, p

    vel = tuple(case["vel"])
    plasma.composition = [Species(el, charge, Maxwellian(Constant3D(1e18), Constant3D(case["ts"]), ConstantVector3D(Vector3D(*vel)),
                                                          el.atomic_weight * ls.ATOMIC_MASS))]
    sp = plasma.composition.get(el, charge)
    p = {"wl": wl, "ts": case["ts"], "mass": el.atomic_weight, "vel": vel, "b": tuple(case.get("b", (0.0, 0.0, 0.0)))}
    models = {}
    if model == "GaussianLine":
        models["no"] = cm.GaussianLine(line, wl, sp, plasma, ad)
    elif model == "MultipletLineShape":
        off, rat = MULTIPLETS[case["variant"]]
        mult = [[wl + o for o in off], list(rat)]
        p["multiplet"] = mult
        models["no"] = cm.MultipletLineShape(line, wl, sp, plasma, ad, mult)
    elif model == "ZeemanTriplet":
        for pol in POLS:
            models[pol] = cm.ZeemanTriplet(line, wl, sp, plasma, ad, polarisation=pol)
    elif model == "ParametrisedZeemanTriplet":
        p["abg"] = PZT[case["variant"]]
        for pol in POLS:
            models[pol] = cm.ParametrisedZeemanTriplet(line, wl, sp, plasma, ad, line_parameters=p["abg"], polarisation=pol)
    elif model == "ZeemanMultiplet":
        st = {g: [(wl + o, dw, r0, dr) for (o, dw, r0, dr) in comps] for g, comps in STRUCTURES[case["variant"]].items()}
        p["structure"] = st

        def fn(a, b):
            return lambda x, a=a, b=b: a + b * x
        zs = ZeemanStructure([(fn(w0, dw), fn(r0, dr)) for (w0, dw, r0, dr) in st["pi"]],
                             [(fn(w0, dw), fn(r0, dr)) for (w0, dw, r0, dr) in st["sigma+"]],
                             [(fn(w0, dw), fn(r0, dr)) for (w0, dw, r0, dr) in st["sigma-"]])
        for pol in POLS:
            models[pol] = cm.ZeemanMultiplet(line, wl, sp, plasma, ad, zeeman_structure=zs, polarisation=pol)
    elif model == "StarkBroadenedLine":
        p.update(stark=tuple(case["stark"]), ne=ne, te=te)
        for pol in POLS:
            if case.get("default_integrator"):
                # the constructor's own default integrator (one object shared by every model built without an integrator)
                models[pol] = cm.StarkBroadenedLine(line, wl, sp, plasma, ad, stark_model_coefficients=tuple(case["stark"]), polarisation=pol)
            else:
                models[pol] = cm.StarkBroadenedLine(line, wl, sp, plasma, ad, stark_model_coefficients=tuple(case["stark"]),
                                                    integrator=GaussianQuadrature(), polarisation=pol)
    else:
        raise ValueError(model)
    keep = (plasma, sp)
    return {pol: (lambda rad, d, s, m=m, keep=keep, at=None: m.add_line(rad, pt if at is None else Point3D(*at), Vector3D(*d), s)) for pol, m in models.items()}, p


# ------------------------------------------------------------------------------------------------ the check
class _Acc:
    """Collects, per signature group, the violation of lowest canonical rank (so that one defect gives one signature per case)."""

    def __init__(self):
        self.best = {}

    def add(self, group, rank, sig, what, expected, observed):
        cur = self.best.get(group)
        if cur is None or rank < cur[0]:
            self.best[group] = (rank, {"sig": sig, "what": what, "expected": expected, "observed": observed})

    def viol(self):
        return [v for _, (_, v) in sorted(self.best.items(), key=lambda kv: repr(kv[0]))]


def _binw_class(ratio):
    return "fine" if ratio <= 0.5 else ("coarse" if ratio >= 5.0 else "medium")


def run_case(case):
    import numpy as np
    from raysect.optical import Spectrum
    from mc.refs import lineshape as ls

    model = case["model"]
    tier = case.get("tier", "quick")
    if model == "integrator-history":
        return _run_integrator_history(case)
    if model == "eval-sequence":
        return _run_eval_sequence(case)
    if model == "stark-sequence":
        return _run_stark_sequence(case)
    adders, p = _build(case)
    reffn = ls.MODELS[model]
    acc = _Acc()
    classes = ["model:" + model]
    nontrivial = set()
    outcome = []
    n = 0
    variant = (model, case.get("variant"), tuple(case.get("stark", ())), case.get("ne"), case.get("te"), case.get("ratios"))
    pols = [q for q in POLS if q in adders]

    def call(pol, rad, d, lo, hi, bins, twice=False):
        s = Spectrum(lo, hi, bins)
        r = adders[pol](rad, d, s)
        a = np.array(r.samples, dtype=np.float64)
        if twice:
            r2 = adders[pol](rad, d, r)
            return a, np.array(r2.samples, dtype=np.float64)
        return a

    # ------------------------------------------------------------------ primitives: systematic bin-width scan
    if model in ("add_gaussian_line", "add_lorentzian_line"):
        w = p["width"]
        comps = reffn(p)
        kind = "G" if model == "add_gaussian_line" else "L"
        if not comps:
            lab = "neg" if w < 0 else "zero"
            for (lo, hi), bins in itertools.product([(499.0, 501.0), (500.0, 500.5), (499.5, 500.0)], (1, 7)):
                a = call("no", 3.7e5, None, lo, hi, bins)
                n += 1
                if np.any(a != 0.0):
                    acc.add(("zw",), (0,), "C02:%s:zero-width-line-adds:width=%s" % (model, lab), "%s(width=%g) changed the spectrum" % (model, w),
                            "all samples == 0.0", a.tolist())
            classes.append("zero-width:width=" + lab)
            outcome.append(("zero-width", lab))
        else:
            fwhm = w * ls.SIGMA2FWHM if kind == "G" else w
            dw = case["ratio"] * fwhm
            ks = ls.half_support(kind, w)
            nb = max(1, int(math.ceil(2.2 * ks / dw))) | 1
            cls = _binw_class(case["ratio"])
            for off, wtype, rad in itertools.product((0.0, 0.1, 0.25, 0.35, 0.5), ("contains", "low-straddle"), (1.0, 3.7e5)):
                lo = p["centre"] - (nb // 2 + off) * dw
                bins = nb
                if wtype == "low-straddle":
                    lo += (nb // 2) * dw
                    bins = nb - nb // 2
                hi = lo + bins * dw
                a = call("no", rad, None, lo, hi, bins)
                n += 1
                _compare(acc, ls, np, model, comps, comps, a, rad, lo, hi, bins, "no", wtype, None, cls if kind == "L" else None,
                         "lorentz" if kind == "L" else "gauss", classes)
                nontrivial.add((variant, wtype, case["ratio"], off, rad))
            classes.append("window:contains")
            if kind == "L":
                classes.append("binw/fwhm=" + cls)
            outcome.append((model, w, case["ratio"]))
        return {"viol": acc.viol(), "classes": classes, "outcome": (tuple(outcome), len(acc.best)), "n": n, "transitions": n,
                "nontrivial": nontrivial}

    # ------------------------------------------------------------------ models
    b = p.get("b", (0.0, 0.0, 0.0))
    dirs = _dirs(b) if model != "BeamEmissionMultiplet" else [(1.0, 0.0, 0.0), (-2.0, 1.0, 2.0)]
    lorentz_model = model == "StarkBroadenedLine"
    binset = (BINS_LORENTZ if lorentz_model else BINS)[tier]
    branch = "gauss"
    if lorentz_model:
        sw = ls.stark_widths(p)
        branch = sw[2] if sw else "none"
        classes.append("stark:" + branch)

    for di, d in enumerate(dirs):
        pp = dict(p, dir=d)
        comps = reffn(pp)
        bcls = _b_class(b, d) if model != "BeamEmissionMultiplet" else ("0" if ls.norm(b) == 0 else "mse")
        dcls = _doppler_class(p["vel"], d) if "vel" in p else "beam"
        classes += ["B:" + bcls, "doppler:" + dcls]
        blab = None if len(pols) == 1 else ("B=0" if bcls == "0" else "B>0")

        if not comps:
            # ---- (v) a line without width adds exactly nothing
            if model == "BeamEmissionMultiplet":
                lab = "beam-T=zero"
            else:
                lab = "Ts=neg" if p["ts"] < 0 else "Ts=zero"
            wl = p["wl"]
            for pol, rad, (lo, hi), bins in itertools.product(pols, (1.0, 3.7e5), [(wl - 1.0, wl + 1.0), (wl, wl + 0.5), (wl - 0.5, wl)], (1, 7)):
                a = call(pol, rad, d, lo, hi, bins)
                n += 1
                if np.any(a != 0.0):
                    acc.add(("zw",), (pols.index(pol),), "C02:%s:zero-width-line-adds:%s" % (model, lab),
                            "a line without width changed the spectrum (pol=%s, window %g..%g, %d bins)" % (pol, lo, hi, bins),
                            "all samples == 0.0", a.tolist())
            classes.append("zero-width:" + lab)
            outcome.append(("zero-width", lab))
            continue

        kinds = {c[2] for c in comps}
        kindlab = "gauss" if kinds == {"G"} else ("lorentz" if kinds == {"L"} else "voigt")
        lfwhm = min([c[4] for c in comps if c[2] == "L"], default=None)
        wins = _windows(comps)
        iso = _isolating(comps)

        for (wcls, lo, hi) in wins:
            for bins in binset:
                delta = (hi - lo) / bins
                cls = None
                if lfwhm is not None and not wcls.startswith("miss"):
                    cls = _binw_class(delta / lfwhm)
                    classes.append("binw/fwhm=" + cls)
                classes.append("window:" + wcls)
                # radiance enters linearly and interacts with nothing else: for the (expensive) Stark model the values 0 and 3.7e5
                # are run on the 7-bin grids only (pairwise pruning allowed by the design), for all other models on every grid
                for rad in (RADIANCE if (not lorentz_model or bins == 7) else RADIANCE[:1]):
                    got = {}
                    for pol in pols:
                        sel = ls.select(comps, pol)
                        a = call(pol, rad, d, lo, hi, bins)
                        n += 1
                        got[pol] = a
                        nz = _compare(acc, ls, np, model, comps, sel, a, rad, lo, hi, bins, pol, wcls, blab, cls, kindlab, classes)
                        if nz:
                            nontrivial.add((variant, branch, bcls, dcls, pol, wcls, bins, rad))
                        classes.append("pol:" + pol)
                    if rad == 0.0:
                        classes.append("radiance:0")
                    if len(pols) == 3:
                        # ---- (iii) pi + sigma == unpolarised, bin by bin
                        sc = ls.scale(comps, rad, delta)
                        dev = np.abs(got["pi"] + got["sigma"] - got["no"])
                        classes.append("pi+sigma-checked")
                        if np.any(dev > 1e-12 * sc) or not np.all(np.isfinite(dev)):
                            i = int(np.nanargmax(dev)) if np.any(np.isfinite(dev)) else 0
                            acc.add(("pi+sigma", blab), (WINDOW_ORDER.index(wcls), bins, rad),
                                    "C02:%s:pi+sigma!=unpolarised:%s:window=%s" % (model, blab, wcls),
                                    "pi + sigma differs from the unpolarised spectrum (bin %d of %d, window %g..%g, B class %s)" % (i, bins, lo, hi, bcls),
                                    float(got["no"][i]), float(got["pi"][i] + got["sigma"][i]))
            # ---- adds to what is already in the spectrum
            if wcls in ("contains", "low-straddle"):
                for pol in pols:
                    a1, a2 = call(pol, 3.7e5, d, lo, hi, 7, twice=True)
                    n += 1
                    classes.append("adds-checked")
                    if not np.allclose(a2, 2.0 * a1, rtol=1e-15, atol=0.0):
                        acc.add(("adds",), (pols.index(pol), WINDOW_ORDER.index(wcls)), "C02:%s:adds-to-existing-spectrum" % model,
                                "second add_line() on the same spectrum does not double it (pol=%s, window=%s)" % (pol, wcls),
                                (2.0 * a1).tolist(), a2.tolist())

        # ---- (iv) component ratios from windows isolating single components
        if iso:
            ref_name, _, _, ref_w = max(iso, key=lambda g: g[3])
            meas = {}
            for (name, lo, hi, wg) in iso:
                for bins in (1, 3):
                    a = call("no", 3.7e5, d, lo, hi, bins)
                    n += 1
                    classes.append("window:isolate")
                    cls = _binw_class((hi - lo) / bins / lfwhm) if lfwhm is not None else None
                    _compare(acc, ls, np, model, comps, comps, a, 3.7e5, lo, hi, bins, "no", "isolate", blab, cls, kindlab, classes)
                    if bins == 1:
                        meas[name] = float(a.sum() * (hi - lo))
            eps = EPS_G if kindlab == "gauss" else EPS_L
            for (name, lo, hi, wg) in iso:
                if name == ref_name or ref_w <= 0 or meas[ref_name] == 0:
                    continue
                classes += ["ratio-checked", "ratio-checked:" + model]
                nontrivial.add((variant, branch, bcls, "ratio", name))
                exp_r, obs_r = wg / ref_w, meas[name] / meas[ref_name]
                if not abs(exp_r - obs_r) <= eps * max(abs(exp_r), abs(obs_r)) + 1e-14:
                    nm = "".join(ch for ch in name if not ch.isdigit() and ch not in "[]")
                    rn = "".join(ch for ch in ref_name if not ch.isdigit() and ch not in "[]")
                    acc.add(("ratio", nm, rn, blab), (0,), "C02:%s:component-ratio:%s/%s%s" % (model, nm, rn, "" if blab is None else ":" + blab),
                            "radiance of isolated component %s relative to %s (B class %s)" % (name, ref_name, bcls), exp_r, obs_r)
        outcome.append((bcls, dcls, kindlab, len(comps), len(iso)))

    return {"viol": acc.viol(), "classes": classes, "outcome": (model, tuple(outcome), tuple(sorted(acc.best, key=repr))), "n": n,
            "transitions": n, "nontrivial": nontrivial}


def _compare(acc, ls, np, model, comps, sel, a, rad, lo, hi, bins, pol, wcls, blab, cls, kindlab, classes):
    """Oracles (i), (ii), (vi) for one spectrum.  Returns True when the reference spectrum is not identically zero."""
    ref, delta = ls.spectrum(sel, rad, lo, hi, bins)
    sc = ls.scale(comps, rad, delta)
    has_l = any(c[2] == "L" and c[5] > 0 for c in sel)
    eps = EPS_L if has_l else EPS_G
    nz = bool(np.any(ref > 0))
    if nz and (ref[0] > 1e-12 * sc or ref[-1] > 1e-12 * sc):
        classes.append("partial-window")
    # signature labels: Lorentzian parts integrated on medium / coarse grids carry only the grid class (the per-bin quadrature is
    # the suspect there, whichever of bin-average / integral trips first); everywhere else the signature names the oracle,
    # polarisation, B class and window class of the first failing point in canonical order
    # Since the fix of the per-bin Lorentzian integration (panels <= 1 FWHM) the only deviations left on medium / coarse
    # grids are *small* ones (GaussianQuadrature's stopping rule - two successive orders agree to rtol - is occasionally met by
    # coincidence at orders 1/2 on the panel next to the line centre).  Those collapse to one signature per grid class, tagged
    # 'small'; anything larger than SMALL_L of the peak bin gets the full signature (oracle, pol, B class, window class).
    lq = False
    lq_small = has_l and cls in ("medium", "coarse")
    tail = kindlab + ((":binw/fwhm=%s" % cls) if (has_l and cls) else "") + ("" if blab is None else ":" + blab) + ":pol=%s:window=%s" % (pol, wcls)
    group = (kindlab, cls if has_l else None, blab)
    rank = (POLS.index(pol), WINDOW_ORDER.index(wcls), bins, rad)
    where = "pol=%s window=%s %.6f..%.6f nm, %d bins, radiance %g" % (pol, wcls, lo, hi, bins, rad)
    if not np.all(np.isfinite(a)):
        acc.add(("nonfinite",) + group, rank, "C02:%s:non-finite-sample:%s" % (model, tail), "non-finite sample; " + where, "finite", a.tolist())
        return nz
    if np.any(a < 0):
        acc.add(("neg",) + group, rank, "C02:%s:negative-sample:%s" % (model, tail), "negative sample; " + where, ">= 0", float(a.min()))
    dev = np.abs(a - ref)
    bad_bin = bool(np.any(dev > eps * sc))
    if bad_bin and lq_small and float(dev.max()) <= SMALL_L * sc:
        i = int(np.argmax(dev))
        acc.add(("lq-small", cls), (0,) + rank, "C02:%s:lorentzian-bin-integral:small-deviation:binw/fwhm=%s" % (model, cls),
                "bin %d of %d differs from radiance x bin-average of the normalised profile by %.3g of the peak bin (< %g); %s" % (i, bins, dev[i] / sc, SMALL_L, where),
                float(ref[i]), float(a[i]))
    elif bad_bin:
        i = int(np.argmax(dev))
        acc.add((("bin",) + group) if not lq else group, (0,) + rank, "C02:%s:%s:%s" % (model, "lorentzian-bin-integral" if lq else "bin-average", tail),
                "bin %d of %d differs from radiance x bin-average of the normalised profile by %.3g of the peak bin; %s" % (i, bins, dev[i] / sc if sc > 0 else float("inf"), where),
                float(ref[i]), float(a[i]))
    else:
        e_int, o_int = float(ref.sum() * delta), float(a.sum() * delta)
        lw = sum(c[5] for c in sel if c[2] == "L")
        floor = rad * (4e-16 * (bins + 4) + 2e-5 * lw)
        if not abs(e_int - o_int) <= eps * max(abs(e_int), abs(o_int)) + floor:
            if lq_small and abs(e_int - o_int) <= SMALL_L * sc * delta * bins:
                acc.add(("lq-small", cls), (1,) + rank, "C02:%s:lorentzian-bin-integral:small-deviation:binw/fwhm=%s" % (model, cls),
                        "sum(samples) x delta differs from radiance x fraction of the profile inside the window by less than %g of (peak bin x window); %s" % (SMALL_L, where), e_int, o_int)
                return nz
            acc.add((("int",) + group) if not lq else group, (1,) + rank, "C02:%s:%s:%s" % (model, "lorentzian-bin-integral" if lq else "integral", tail),
                    "sum(samples) x delta differs from radiance x fraction of the profile inside the window; " + where, e_int, o_int)
    return nz
