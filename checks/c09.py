"""C09 - ionisation balance (engine L: exhaustive input lattice, closed-form reference).

Every lattice point (rate family, Z, n_e, T_e, donor density) is pushed through every entry point of
cherab.tools.plasmas.ionisation_balance in every documented input representation.  Three kinds of oracle:

 (a) *reference*: the result of the core entry points (fractional_abundance, from_elementdensity,
     match_plasma_neutrality) is compared with the closed-form detailed-balance recurrence of
     mc/refs/ionbal.py (range, sum, balance residual, densities, neutrality);
 (b) *representation agreement*: the same lattice points given as ndarray / Function1D / Function2D must give the
     scalar-call result (differential between calls of the real code, which is what the property states);
 (c) *wrapper agreement*: interpolators1d/2d_*, abundance_axisymmetric_mapper and equilibrium_map3d_* are compared
     with the core entry point evaluated on the same profile (nodes exactly, between nodes by the documented linear
     interpolation); a deviation that is already present in the core is reported under the core's signature only.
"""
import contextlib
import io
import math

PROPERTY = "C09"
DRIVER = ("mock AtomicData (analytic rates) -> every ionisation_balance entry point x input representation; "
          "reference = closed-form detailed-balance recurrence")

NE = (1e17, 1e19, 1e21)
TE = (1.0, 30.0, 1e3, 3e4)
# lattice 'A' is DESIGN.md's; 'B' (thorough only) interleaves it.  Both are 3 x 4 so that every representation has the
# same (non-square) shape.
LATTICES = {"A": (NE, TE), "B": ((3e16, 2e18, 4e20), (0.3, 6.0, 2e2, 7e3))}
# donor label -> (class, donor atomic number, donor charge, base density); the density of lattice point k is
# base * WEIGHTS[k % 3] so that a donor *profile* is not constant (an index mix-up is visible)
DONORS = {
    "none": ("none", None, 0, None),
    "zero": ("zero", 1, 0, 0.0),
    "lo": ("pos", 1, 0, 1e15),
    "hi": ("pos", 2, 1, 1e18),
}
WEIGHTS = (1.0, 2.0, 0.5)
FAMILIES = ("smooth", "equal", "cxgap")
Z_QUICK = (1, 2, 6, 10, 18)
Z_THOROUGH = tuple(range(1, 19))
GROUPS = ("scalar", "repr-fractional", "repr-elementdensity", "repr-neutrality", "interp1d", "interp2d", "equilibrium")
REPS = ("array1d", "array1d-len1", "array2d", "array2d-fortran", "func1d+fv-scalar", "func1d+fv-array", "func1d+fv-intarray", "pyfunc1d+fv-array",
        "scalar+func1d+fv-scalar", "func2d+fv-tuple", "pyfunc2d+fv-list", "mixed1d", "mixed2d")
SPECIES = ("none", "one", "two", "full", "exceed")
CORE = ("fractional_abundance", "from_elementdensity", "match_plasma_neutrality")
WRAPPERS = ("interpolators1d_fractional", "interpolators1d_from_elementdensity", "interpolators1d_match_plasma_neutrality",
            "interpolators2d_fractional", "interpolators2d_from_elementdensity", "interpolators2d_match_plasma_neutrality",
            "abundance_axisymmetric_mapper", "equilibrium_map3d_fractional", "equilibrium_map3d_from_elementdensity",
            "equilibrium_map3d_match_plasma_neutrality")

ALPHABET = {
    "rate families": {"smooth": "power-law cut-off ionisation, t^-1/2 recombination (S/alpha spans ~19 decades over the lattice)",
                      "equal": "S_z == alpha_(z+1): uniform abundances without CX",
                      "cxgap": "smooth, with one vanishing CX rate in the middle of the chain"},
    "Z": {"quick": list(Z_QUICK), "thorough": list(Z_THOROUGH)},
    "n_e": {"A (quick+thorough)": list(NE), "B (thorough)": list(LATTICES["B"][0])},
    "T_e": {"A (quick+thorough)": list(TE), "B (thorough)": list(LATTICES["B"][1])},
    "donor": {k: {"class": v[0], "donor Z": v[1], "donor charge": v[2], "density": v[3]} for k, v in DONORS.items()},
    "donor profile weights": list(WEIGHTS),
    "scalar types": ["float", "numpy.float64", "int T_e"],
    "representations": list(REPS),
    "element density": ["0", "1e-3 n_e", "3 n_e (exceeds n_e: warning branch)"],
    "given species for neutrality": list(SPECIES),
    "species containers": ["dict {charge: profile} filled in ascending and in descending charge order", "ndarray (charge, *shape)"],
    "entry points": list(CORE) + list(WRAPPERS),
}
BOUND = {"quick": "complete lattice A for Z in {1,2,6,10,18}", "thorough": "complete lattices A and B for Z = 1..18"}
RULE = ("one case per (rate family, Z, donor label, entry-point group); inside a case every (n_e, T_e) lattice point is "
        "evaluated through every representation / container of the group.  A sub-case (entry, representation, lattice point) "
        "is non-trivial when the reference abundance is not a unit vector to 1e-6 (>= 2 stages populated) and, for a positive "
        "donor density, when the reference with donor differs from the reference without donor by more than 1e-6")
ASSUMPTIONS = [
    "the mock AtomicData returns plain Python callables (n_e, T_e) -> rate; real rate objects are called the same way",
    "rates are strictly positive (except the one deliberately vanishing CX rate): the steady state is then unique and is the "
    "detailed-balance recurrence",
    "lsq_linear (default tol 1e-10) is accepted within 1e-7 absolute on fractions and 1e-7 of the largest flux on the balance "
    "residual (measured on the unmodified tree: <= 7.1e-9 on fractions over both lattices)",
    "mixing a scalar with an array argument is outside the documented input forms and is not explored",
    "psi_normalised / inside_lcfs of the example equilibrium are taken from the equilibrium object (C12 checks them)",
    "a call of the real code that has not returned after 10 s of user CPU time (ITIMER_VIRTUAL; a 12-point profile needs < 1 s) "
    "is recorded as 'does-not-return'; profiles/wrappers that contain such a lattice point are tried once, not once per representation",
]
REQUIRED_CLASSES = (["entry:" + e for e in CORE + WRAPPERS] + ["repr:scalar"] + ["repr:" + r for r in REPS]
                    + ["donor:none", "donor:zero", "donor:pos", "donor-distinguishable", "donor-indistinguishable"]
                    + ["family:" + f for f in FAMILIES] + ["species:" + s for s in SPECIES] + ["lattice:A"]
                    + ["species-container:dict", "species-container:dict-desc", "species-container:ndarray", "nel:zero", "nel:below-ne", "nel:above-ne",
                       "scalar-type:float", "scalar-type:float64", "scalar-type:int-te", "between-nodes", "outside-lcfs",
                       "sequence:donor-charge-alternates", "sequence:donor-charge-distinguishable"])
BUDGET_S = {"quick": 1200, "thorough": 3000}   # wall-clock caps only; CPU need: ~250 s quick, ~4500 s thorough (16 idle cores: ~20 s / ~5 min)
CHUNK = 1

# |fraction - closed form|.  lsq_linear documents only termination tolerances (tol=1e-10 on the relative cost change and on the
# scaled gradient), not an error bound on x; DESIGN.md's accuracy statement for the solver is the balance residual <= 1e-7 of the
# largest flux.  An error dx on a dominant stage changes that flux by the fraction dx / x_dominant >= dx, so 1e-7 on x is the same
# statement in the x norm.  Measured on the unmodified tree: <= 7.1e-9 over both lattices (1e-8 would leave no margin).
TOL_X = 1e-7
TOL_SUM = 1e-9     # |sum - 1|
TOL_RANGE = 1e-12  # fractions in [-1e-12, 1 + 1e-12]
TOL_BAL = 1e-7     # balance residual relative to the largest inter-stage flux (norm of the solved system)
TOL_REP = 1e-10    # representation / entry-point agreement, relative to the largest component
TOL_NEUT = 1e-9    # neutrality, relative to n_e
DISTINCT = 1e-6    # reference with/without donor must differ by this much before 'donor-ignored' can be diagnosed

CALL_CPU_LIMIT_S = 10.0   # user-CPU seconds allowed to one call of the real code (ITIMER_VIRTUAL: immune to machine load)

_G = {}


class _DoesNotReturn(BaseException):
    pass


def _on_vtalrm(signum, frame):
    raise _DoesNotReturn()


# ---------------------------------------------------------------------------------------------------------------
# cases
# ---------------------------------------------------------------------------------------------------------------
def cases(tier):
    zs = Z_QUICK if tier == "quick" else Z_THOROUGH
    lats = ("A",) if tier == "quick" else ("A", "B")
    out = []
    # heavy (large Z) first so that the tail of the run is made of cheap cases
    for Z in sorted(zs, reverse=True):
        for lat in lats:
            for fam in FAMILIES:
                for dl in DONORS:
                    for g in GROUPS:
                        out.append({"family": fam, "Z": Z, "donor": dl, "group": g, "lat": lat,
                                    "label": "%s:Z=%d:%s:%s:%s" % (g, Z, fam, dl, lat)})
    return out


def crash_label(case):
    return case["group"]


# ---------------------------------------------------------------------------------------------------------------
# worker globals: mock atomic data, elements, equilibrium
# ---------------------------------------------------------------------------------------------------------------
def setup_worker(tier):
    if _G:
        return
    import signal
    import numpy as np
    signal.signal(signal.SIGVTALRM, _on_vtalrm)
    from cherab.core.atomic import AtomicData, lookup_element
    from cherab.tools.plasmas import ionisation_balance as ib
    from mc.refs import ionbal as R

    class Rate:
        __slots__ = ("f",)

        def __init__(self, f):
            self.f = f

        def __call__(self, n, t):
            return self.f(float(n), float(t))

    class MockAtomicData(AtomicData):
        def __init__(self, family):
            self.family = family

        def ionisation_rate(self, ion, charge):
            fam, Z, q = self.family, ion.atomic_number, int(charge)
            return Rate(lambda n, t: R.ion_rate(fam, Z, q, n, t))

        def recombination_rate(self, ion, charge):
            fam, Z, q = self.family, ion.atomic_number, int(charge)
            return Rate(lambda n, t: R.rec_rate(fam, Z, q, n, t))

        def thermal_cx_rate(self, donor_ion, donor_charge, receiver_ion, receiver_charge):
            fam, Z, q = self.family, receiver_ion.atomic_number, int(receiver_charge)
            dz, dq = donor_ion.atomic_number, int(donor_charge)
            return Rate(lambda n, t: R.cx_rate(fam, Z, q, n, t, dz, dq))

    _G.update(np=np, ib=ib, R=R, ad={f: MockAtomicData(f) for f in FAMILIES},
              el={z: lookup_element(z) for z in range(1, 19)}, refmemo={}, eq=None)


def _equilibrium():
    if _G["eq"] is None:
        from cherab.tools.equilibrium import example_equilibrium
        _G["eq"] = example_equilibrium()
    return _G["eq"]


# ---------------------------------------------------------------------------------------------------------------
# per-case context
# ---------------------------------------------------------------------------------------------------------------
class Ctx:
    def __init__(self, case):
        self.case = case
        self.fam, self.Z, self.dl, self.group = case["family"], case["Z"], case["donor"], case["group"]
        self.dcls, self.dz, self.dq, self.dbase = DONORS[self.dl]
        self.ad = _G["ad"][self.fam]
        self.el = _G["el"][self.Z]
        self.donor = None if self.dz is None else _G["el"][self.dz]
        self.viol, self.classes, self.nontrivial, self.states = [], [], [], []
        self.sigs = set()
        self.hung = set()        # entry points (and (entry, lattice index)) whose call did not return in this case
        self.n = 0
        self.transitions = 0
        self.check = 0.0
        self.classes += ["donor:" + self.dcls, "family:" + self.fam, "lattice:" + case.get("lat", "A")]
        # lattice points of this case
        self.pts = []
        lne, lte = LATTICES[case.get("lat", "A")]
        for i, ne in enumerate(lne):
            for j, te in enumerate(lte):
                k = i * len(lte) + j
                nd = None if self.dbase is None else self.dbase * WEIGHTS[k % 3]
                self.pts.append(self.point(ne, te, nd))

    def point(self, ne, te, nd):
        R, np = _G["R"], _G["np"]
        key = (self.fam, self.Z, ne, te, nd, self.dz, self.dq)
        memo = _G["refmemo"]
        p = memo.get(key)
        if p is None:
            x, S, A = R.fractions(self.fam, self.Z, ne, te, nd, self.dz or 1, self.dq)
            x0, _, A0 = R.fractions(self.fam, self.Z, ne, te, None)
            p = {"ne": ne, "te": te, "nd": nd, "x": x, "S": S, "A": A, "x0": x0, "A0": A0,
                 "zmean": R.mean_charge(x), "zmean0": R.mean_charge(x0),
                 "distinct": bool(np.max(np.abs(x - x0)) > DISTINCT),
                 "populated": int(np.sum(x > 1e-6)), "key": key}
            if len(memo) > 20000:
                memo.clear()
            memo[key] = p
        return p

    # -- bookkeeping -------------------------------------------------------------------------------------------
    def V(self, sig, what, expected, observed):
        sig = "C09:" + sig
        if sig in self.sigs:
            return
        self.sigs.add(sig)
        self.viol.append({"sig": sig, "what": "%s [family=%s Z=%d donor=%s]" % (what, self.fam, self.Z, self.dl),
                          "expected": _js(expected), "observed": _js(observed)})

    def visit(self, entry, rep, p):
        self.n += 1
        self.states.append(p["key"])
        nontriv = p["populated"] >= 2 and (self.dcls != "pos" or p["distinct"])
        if nontriv:
            self.nontrivial.append((entry, rep, p["key"]))
        if self.dcls == "pos":
            self.classes.append("donor-distinguishable" if p["distinct"] else "donor-indistinguishable")

    def result(self):
        return {"viol": self.viol, "classes": self.classes, "n": max(self.n, 1), "states": self.states,
                "transitions": max(self.transitions, 1), "nontrivial": self.nontrivial,
                "outcome": (self.case["label"], tuple(sorted(self.sigs)), round(self.check, 6))}

    def ptdesc(self, p):
        return "n_e=%g T_e=%g n_D=%s" % (p["ne"], p["te"], "None" if p["nd"] is None else "%g" % p["nd"])

    # -- calls -------------------------------------------------------------------------------------------------
    def call(self, fn, *a, **k):
        """call the real code under a CPU-time watchdog; returns (value, None) or (None, 'ExcType: message')"""
        import signal
        self.transitions += 1
        buf = io.StringIO()
        signal.setitimer(signal.ITIMER_VIRTUAL, CALL_CPU_LIMIT_S)
        try:
            with contextlib.redirect_stdout(buf):
                return fn(*a, **k), None
        except _DoesNotReturn:
            return None, "DoesNotReturn: no result after %g s of CPU time (a 12-point profile normally needs < 1 s)" % CALL_CPU_LIMIT_S
        except Exception as e:  # noqa
            return None, type(e).__name__ + ": " + str(e)[:200]
        finally:
            signal.setitimer(signal.ITIMER_VIRTUAL, 0)

    def failed(self, entry, rep, err, what, expected="a result"):
        """a call of the real code raised / did not return: one signature per (entry, failure kind)"""
        if _exc_type(err) == "DoesNotReturn":
            self.hung.add(entry)
            # independent of the representation: the point solver is shared by all of them
            self.V("%s:does-not-return" % entry, what + " never returns", expected, err)
        else:
            self.V("%s:repr=%s:raises:%s" % (entry, rep, _exc_type(err)), what + " raises", expected, err)

    def donor_kw(self, nd_arg):
        if self.donor is None:
            return {}
        return {"tcx_donor": self.donor, "tcx_donor_n": nd_arg, "tcx_donor_charge": self.dq}


def _js(x):
    np = _G["np"]
    if isinstance(x, np.ndarray):
        return [float("%.6g" % v) for v in x.ravel()[:24]]
    if isinstance(x, (list, tuple)):
        return [_js(v) for v in x]
    if isinstance(x, (float, np.floating)):
        return float("%.9g" % x)
    return x


def _exc_type(err):
    return err.split(":", 1)[0]


# ---------------------------------------------------------------------------------------------------------------
# oracles against the closed form
# ---------------------------------------------------------------------------------------------------------------
def _profile(ctx, entry, rep, res, shape):
    """result dict {charge: ndarray(shape)} -> ndarray (Z+1, *shape) or None (violation recorded)"""
    np = _G["np"]
    Z = ctx.Z
    if not isinstance(res, dict) or sorted(res.keys()) != list(range(Z + 1)):
        ctx.V("%s:repr=%s:result-keys" % (entry, rep), "result is not a dict keyed by charge 0..Z",
              list(range(Z + 1)), repr(sorted(res.keys()) if isinstance(res, dict) else type(res)))
        return None
    out = np.zeros((Z + 1,) + tuple(shape))
    for q in range(Z + 1):
        v = np.asarray(res[q], dtype=float)
        if v.shape != tuple(shape):
            ctx.V("%s:repr=%s:result-shape" % (entry, rep), "profile of charge %d has the wrong shape" % q, list(shape), list(v.shape))
            return None
        out[q] = v
    return out


def check_fractions(ctx, entry, x, p):
    """x: observed fractional abundances (Z+1,) at lattice point p.  Returns True when x matches the closed form."""
    np, R = _G["np"], _G["R"]
    d = "donor=" + ctx.dcls
    at = ctx.ptdesc(p)
    if not np.all(np.isfinite(x)):
        ctx.V("%s:%s:non-finite" % (entry, d), "non-finite abundance at " + at, p["x"], x)
        return False
    ok = True
    if x.min() < -TOL_RANGE or x.max() > 1.0 + TOL_RANGE:
        ctx.V("%s:%s:fraction-out-of-[0,1]" % (entry, d), "abundance outside [0,1] at " + at, "[0,1]", [x.min(), x.max()])
        ok = False
    err = float(np.max(np.abs(x - p["x"])))
    if err > TOL_X:
        # one signature per failing point: a wrong vector also breaks the sum / the balance, which adds nothing
        if ctx.dcls == "pos" and float(np.max(np.abs(x - p["x0"]))) <= TOL_X:
            ctx.V("%s:donor-ignored" % entry, "result equals the balance WITHOUT the CX donor at " + at, p["x"], x)
            return False
        ctx.V("%s:%s:differs-from-closed-form" % (entry, d), "abundances differ from n_(z+1)/n_z = S_z/(alpha+nD/ne C)_(z+1) at " + at,
              p["x"], x)
        return False
    if abs(math.fsum(x) - 1.0) > TOL_SUM:
        ctx.V("%s:%s:sum-not-one" % (entry, d), "abundances do not sum to one at " + at, 1.0, math.fsum(x))
        ok = False
    res, flux = R.balance_residual(x, p["S"], p["A"])
    if res > TOL_BAL * flux:
        if ctx.dcls == "pos":
            res0, flux0 = R.balance_residual(x, p["S"], p["A0"])
            if res0 <= TOL_BAL * flux0:
                ctx.V("%s:donor-ignored" % entry, "result balances the rates WITHOUT the CX donor, not with it, at " + at, "<= %g" % (TOL_BAL * flux), res)
                return False
        ctx.V("%s:%s:balance-residual" % (entry, d), "|x_z S_z - x_(z+1) A_(z+1)| > 1e-7 max flux at " + at, "<= %g" % (TOL_BAL * flux), res)
        ok = False
    return ok


def check_density(ctx, entry, dens, nel, p):
    """from_elementdensity: densities == nel * fractions"""
    np = _G["np"]
    d = "donor=" + ctx.dcls
    at = ctx.ptdesc(p) + " n_el=%g" % nel
    if not np.all(np.isfinite(dens)):
        ctx.V("%s:%s:non-finite" % (entry, d), "non-finite density at " + at, nel * p["x"], dens)
        return False
    if nel == 0.0:
        if np.any(dens != 0.0):
            ctx.V("%s:%s:nel=0:non-zero-density" % (entry, d), "zero element density gives non-zero stage densities at " + at, 0.0, dens)
            return False
        return True
    return check_fractions(ctx, entry, dens / nel, p)


def neutral_expect(ctx, p, qs, x=None, zmean=None):
    x = p["x"] if x is None else x
    zmean = p["zmean"] if zmean is None else zmean
    rem = max(p["ne"] - qs, 0.0)
    ni = rem / zmean
    return x * ni, ni


def check_neutral(ctx, entry, dens, qs, p, scls):
    """match_plasma_neutrality: dens >= 0, charge + given species charge == n_e, dens == x * (n_e - qs)/<z>"""
    np = _G["np"]
    d = "donor=" + ctx.dcls
    Z, ne = ctx.Z, p["ne"]
    at = ctx.ptdesc(p) + " species=" + scls
    exp, ni = neutral_expect(ctx, p, qs)
    if not np.all(np.isfinite(dens)):
        ctx.V("%s:%s:species=%s:non-finite" % (entry, d, scls), "non-finite density at " + at, exp, dens)
        return False
    ok = True
    # same allowance as for the fractions (DESIGN.md: fractions in [-1e-12, 1 + 1e-12]), in density units
    if dens.min() < -TOL_RANGE * max(ni, ne):
        ctx.V("%s:%s:negative-density" % (entry, d), "negative stage density at " + at, ">= 0", dens.min())
        ok = False
    charge = math.fsum(q * v for q, v in enumerate(dens))
    if scls == "exceed":
        # the given species alone carry more charge than n_e: neutrality cannot be met; documented behaviour is
        # 'avoid negative densities' -> the matched element must vanish
        if np.any(dens != 0.0):
            ctx.V("%s:%s:species=exceed:non-zero-density" % (entry, d), "given species exceed n_e but the matched element has density at " + at, 0.0, dens)
            ok = False
        return ok
    # error propagation of TOL_X through n_z = x_z (n_e - qs) / <z>:  d<z> <= Z(Z+1)/2 TOL_X
    tol = ni * TOL_X * (1.0 + p["x"] * (0.5 * Z * (Z + 1)) / p["zmean"]) + 1e-12 * ne
    if np.any(np.abs(dens - exp) > tol):
        if ctx.dcls == "pos":
            exp0, ni0 = neutral_expect(ctx, p, qs, p["x0"], p["zmean0"])
            tol0 = ni0 * TOL_X * (1.0 + p["x0"] * (0.5 * Z * (Z + 1)) / p["zmean0"]) + 1e-12 * ne
            if np.all(np.abs(dens - exp0) <= tol0):
                ctx.V("%s:donor-ignored" % entry, "result equals the balance WITHOUT the CX donor at " + at, exp, dens)
                return False
        if abs(charge + qs - ne) > TOL_NEUT * ne:
            ctx.V("%s:%s:neutrality" % (entry, d), "sum z n_z + charge of given species != n_e at " + at, ne, charge + qs)
        else:
            ctx.V("%s:%s:differs-from-closed-form" % (entry, d), "neutral, but densities differ from x_z (n_e - q_species)/<z> at " + at, exp, dens)
        return False
    if abs(charge + qs - ne) > TOL_NEUT * ne:
        ctx.V("%s:%s:neutrality" % (entry, d), "sum z n_z + charge of given species != n_e at " + at, ne, charge + qs)
        ok = False
    return ok


def agree(ctx, sig, what, a, b, tol=TOL_REP):
    """differential oracle between two results of the real code"""
    np = _G["np"]
    a, b = np.asarray(a, dtype=float), np.asarray(b, dtype=float)
    if a.shape != b.shape:
        ctx.V(sig, what + " (shape)", list(b.shape), list(a.shape))
        return False
    fa, fb = np.isfinite(a), np.isfinite(b)
    if not np.array_equal(fa, fb):
        ctx.V(sig, what + " (finiteness)", b, a)
        return False
    scale = max(float(np.max(np.abs(b[fb]))) if fb.any() else 0.0, 1e-300)
    if fb.any() and float(np.max(np.abs(a[fb] - b[fb]))) > tol * scale:
        ctx.V(sig, what, b, a)
        return False
    return True


def agree_entry(ctx, entry, what, got, from_fractional, ref, ref0, tol):
    """differential oracle 'entry point == the same thing computed from fractional_abundance' (both are results of the real
    code).  Inside the band where the closed-form tolerance cannot tell the balance with donor from the one without, a result
    that sits on the no-donor reference while fractional_abundance sits on the with-donor one is the donor-ignored defect."""
    np = _G["np"]
    scale = max(float(np.max(np.abs(from_fractional))), 1e-300)
    if float(np.max(np.abs(got - from_fractional))) <= tol * scale:
        return True
    if ctx.dcls == "pos" and 10.0 * float(np.max(np.abs(got - ref0))) < float(np.max(np.abs(got - ref))):
        ctx.V("%s:donor-ignored" % entry, "result sits on the balance WITHOUT the CX donor (fractional_abundance does not); " + what, from_fractional, got)
        return False
    ctx.V("%s:differs-from-fractional_abundance" % entry, what, from_fractional, got)
    return False


# ---------------------------------------------------------------------------------------------------------------
# input representations
# ---------------------------------------------------------------------------------------------------------------
X1 = [float(k) for k in range(len(NE) * len(TE))]
XA, YA = [0.0, 1.0, 2.0], [0.0, 1.0, 2.0, 3.0]


def as_kind(kind, vals, k0=None):
    """vals: value per lattice index k (12 of them) -> argument of the requested kind"""
    np = _G["np"]
    from raysect.core.math.function.float import Interpolator1DArray, Interpolator2DArray
    from raysect.core.math.function.float.function1d.autowrap import PythonFunction1D
    from raysect.core.math.function.float.function2d.autowrap import PythonFunction2D
    vals = [float(v) for v in vals]
    nj = len(TE)
    if kind == "scalar":
        return vals[k0]
    if kind == "arr1":
        return np.array(vals)
    if kind == "arr1-len1":
        return np.array([vals[k0]])
    if kind == "arr2":
        return np.array(vals).reshape(len(NE), nj)
    if kind == "arr2f":
        return np.asfortranarray(np.array(vals).reshape(len(NE), nj))
    if kind == "f1i":
        return Interpolator1DArray(np.array(X1), np.array(vals), "linear", "none", 0)
    if kind == "f1p":
        table = {x: v for x, v in zip(X1, vals)}
        return PythonFunction1D(lambda x: table[x])
    if kind == "f2i":
        return Interpolator2DArray(np.array(XA), np.array(YA), np.array(vals).reshape(len(NE), nj), "linear", "none", 0, 0)
    if kind == "f2p":
        table = {(XA[i], YA[j]): vals[i * nj + j] for i in range(len(NE)) for j in range(nj)}
        return PythonFunction2D(lambda x, y: table[(x, y)])
    raise ValueError(kind)


K0 = 6    # lattice index used by the single-point representations (second n_e, third T_e)

# rep -> (kind n_e, kind T_e, kind n_D, kind of extra profiles, free variable factory, result shape, lattice indices in result order)
def rep_spec(rep):
    np = _G["np"]
    allk = list(range(len(X1)))
    fv1 = lambda: np.array(X1)                                   # noqa: E731
    fv2t = lambda: (np.array(XA), np.array(YA))                  # noqa: E731
    fv2l = lambda: [np.array(XA), np.array(YA)]                  # noqa: E731
    none = lambda: None                                          # noqa: E731
    table = {
        "array1d": ("arr1", "arr1", "arr1", "arr1", none, (12,), allk),
        "array1d-len1": ("arr1-len1", "arr1-len1", "arr1-len1", "arr1-len1", none, (1,), [K0]),
        "array2d": ("arr2", "arr2", "arr2", "arr2", none, (3, 4), allk),
        "array2d-fortran": ("arr2f", "arr2f", "arr2f", "arr2f", none, (3, 4), allk),      # the same numbers in column-major memory order
        "func1d+fv-scalar": ("f1i", "f1i", "f1i", "f1i", lambda: X1[K0], (1,), [K0]),
        "func1d+fv-array": ("f1i", "f1i", "f1i", "f1i", fv1, (12,), allk),
        "func1d+fv-intarray": ("f1i", "f1i", "f1i", "f1i", lambda: np.arange(len(X1)), (12,), allk),      # positions given as an integer array
        "pyfunc1d+fv-array": ("f1p", "f1p", "f1p", "f1p", fv1, (12,), allk),
        "scalar+func1d+fv-scalar": ("scalar", "f1i", "scalar", "f1p", lambda: X1[K0], (1,), [K0]),
        "func2d+fv-tuple": ("f2i", "f2i", "f2i", "f2i", fv2t, (3, 4), allk),
        "pyfunc2d+fv-list": ("f2p", "f2p", "f2p", "f2p", fv2l, (3, 4), allk),
        "mixed1d": ("f1i", "arr1", "f1p", "arr1", fv1, (12,), allk),
        "mixed2d": ("arr2", "f2i", "f2p", "f2i", fv2t, (3, 4), allk),
    }
    return table[rep]


def species_values(ctx, scls):
    """given species: list of (n_charge_states, [density per charge per lattice index k]); and their charge per k"""
    pts = ctx.pts
    sp = []
    if scls == "none":
        pass
    elif scls == "one":
        sp.append([[1e-3 * p["ne"] * (1 + 0.1 * k), 2e-3 * p["ne"], 5e-3 * p["ne"] * (1 + 0.05 * k)] for k, p in enumerate(pts)])
    elif scls == "two":
        sp.append([[1e-3 * p["ne"], 2e-3 * p["ne"] * (1 + 0.1 * k), 5e-3 * p["ne"]] for k, p in enumerate(pts)])
        sp.append([[3e-4 * p["ne"] * (q + 1) * (1 + 0.02 * k) for q in range(7)] for k, p in enumerate(pts)])
    elif scls == "full":
        sp.append([[5e-3 * p["ne"], p["ne"]] for k, p in enumerate(pts)])          # charge of the species == n_e exactly
    elif scls == "exceed":
        sp.append([[0.0, 0.2 * p["ne"], 0.6 * p["ne"]] for k, p in enumerate(pts)])  # 1.4 n_e
    qs = []
    for k in range(len(pts)):
        tot = 0.0
        for s in sp:                      # same order of operations is not required: tolerance 1e-9 n_e
            tot += math.fsum(q * v for q, v in enumerate(s[k]))
        qs.append(tot)
    return sp, qs


def species_arg(sp, container, kind, k0=None):
    """container 'dict': list of {charge: profile of the given kind}; 'ndarray': list of arrays (charge, *shape)"""
    np = _G["np"]
    out = []
    for s in sp:
        nq = len(s[0])
        if container in ("dict", "dict-desc"):
            d = {}
            # 'dict-desc': the same mapping built from the bare nucleus down (insertion order is not part of a dict's meaning)
            for q in (range(nq) if container == "dict" else range(nq - 1, -1, -1)):
                vals = [s[k][q] for k in range(len(s))]
                if kind == "scalar":
                    d[q] = np.array([vals[k0]])         # what from_elementdensity returns for scalar input
                else:
                    d[q] = as_kind(kind, vals, k0)
            out.append(d)
        else:
            if kind == "scalar" or kind == "arr1-len1":
                out.append(np.array([[s[k0][q]] for q in range(nq)]))
            elif kind == "arr1":
                out.append(np.array([[s[k][q] for k in range(len(s))] for q in range(nq)]))
            elif kind == "arr2":
                out.append(np.array([[s[k][q] for k in range(len(s))] for q in range(nq)]).reshape(nq, len(NE), len(TE)))
            else:
                raise ValueError(kind)
    return out


NEL = (("zero", 0.0), ("below-ne", 1e-3), ("above-ne", 3.0))   # element density as a multiple of n_e


# ---------------------------------------------------------------------------------------------------------------
# groups
# ---------------------------------------------------------------------------------------------------------------
def _col(arr, idx, shape):
    """column of a (Z+1, *shape) result at flat result index idx"""
    np = _G["np"]
    return arr[(slice(None),) + tuple(np.unravel_index(idx, shape))]


def scalar_baseline(ctx, entry, ks, nel_mult=None, sp=None, container="dict"):
    """scalar calls of a core entry point at lattice indices ks -> {k: ndarray(Z+1) or None}"""
    ib = _G["ib"]
    out = {}
    for k in ks:
        p = ctx.pts[k]
        kw = ctx.donor_kw(p["nd"])
        if (entry, k) in ctx.hung:
            out[k] = None
            continue
        if entry == "fractional_abundance":
            r, err = ctx.call(ib.fractional_abundance, ctx.ad, ctx.el, p["ne"], p["te"], **kw)
        elif entry == "from_elementdensity":
            r, err = ctx.call(ib.from_elementdensity, ctx.ad, ctx.el, nel_mult * p["ne"], p["ne"], p["te"], **kw)
        else:
            r, err = ctx.call(ib.match_plasma_neutrality, ctx.ad, ctx.el, species_arg(sp, container, "scalar", k), p["ne"], p["te"], **kw)
        if err is not None:
            ctx.failed(entry, "scalar", err, "scalar call at " + ctx.ptdesc(p))
            if _exc_type(err) == "DoesNotReturn":
                ctx.hung.add((entry, k))
            out[k] = None
            continue
        prof = _profile(ctx, entry, "scalar", r, (1,))
        out[k] = None if prof is None else prof[:, 0]
    return out


def group_scalar(ctx):
    np, ib = _G["np"], _G["ib"]
    ks = list(range(len(ctx.pts)))
    ctx.classes.append("repr:scalar")
    # fractional_abundance with the three scalar types
    base = scalar_baseline(ctx, "fractional_abundance", ks)
    ctx.classes += ["entry:fractional_abundance", "scalar-type:float"]
    for k in ks:
        p = ctx.pts[k]
        ctx.visit("fractional_abundance", "scalar", p)
        if base[k] is None:
            continue
        check_fractions(ctx, "fractional_abundance", base[k], p)
        ctx.check += float(ctx._zm(base[k]))
        for tname, conv_n, conv_t in (("float64", np.float64, np.float64), ("int-te", float, int)):
            if tname == "int-te" and p["te"] != int(p["te"]):
                continue                      # lattice B has a non-integral T_e
            kw = ctx.donor_kw(None if p["nd"] is None else conv_n(p["nd"]))
            r, err = ctx.call(ib.fractional_abundance, ctx.ad, ctx.el, conv_n(p["ne"]), conv_t(p["te"]), **kw)
            ctx.classes.append("scalar-type:" + tname)
            ctx.n += 1
            if err is not None:
                ctx.failed("fractional_abundance", "scalar-" + tname, err, "scalar call at " + ctx.ptdesc(p))
                continue
            prof = _profile(ctx, "fractional_abundance", "scalar-" + tname, r, (1,))
            if prof is not None:
                agree(ctx, "fractional_abundance:repr=scalar-%s:differs-from-float" % tname,
                      "same numbers given as %s give another result at %s" % (tname, ctx.ptdesc(p)), prof[:, 0], base[k])
    # from_elementdensity, three element densities
    ctx.classes.append("entry:from_elementdensity")
    for ncls, mult in NEL:
        ctx.classes.append("nel:" + ncls)
        res = scalar_baseline(ctx, "from_elementdensity", ks, nel_mult=mult)
        for k in ks:
            p = ctx.pts[k]
            ctx.visit("from_elementdensity", "scalar:nel=" + ncls, p)
            if res[k] is None:
                continue
            good = check_density(ctx, "from_elementdensity", res[k], mult * p["ne"], p)
            if good and base[k] is not None:
                nel = mult * p["ne"]
                agree_entry(ctx, "from_elementdensity", "densities != n_el * fractional_abundance at " + ctx.ptdesc(p),
                            res[k], nel * base[k], nel * p["x"], nel * p["x0"], TOL_REP)
    # match_plasma_neutrality, all species classes, both containers
    ctx.classes.append("entry:match_plasma_neutrality")
    for scls in SPECIES:
        sp, qs = species_values(ctx, scls)
        ctx.classes.append("species:" + scls)
        for container in ("dict", "dict-desc", "ndarray"):
            ctx.classes.append("species-container:" + container)
            res = scalar_baseline(ctx, "match_plasma_neutrality", ks, sp=sp, container=container)
            for k in ks:
                p = ctx.pts[k]
                ctx.visit("match_plasma_neutrality", "scalar:%s:%s" % (scls, container), p)
                if res[k] is None:
                    continue
                good = check_neutral(ctx, "match_plasma_neutrality", res[k], qs[k], p, scls)
                zm = ctx._zm(base[k]) if base[k] is not None else 0.0
                if good and zm > 0.0 and scls != "exceed":
                    agree_entry(ctx, "match_plasma_neutrality", "densities != fractional_abundance * (n_e - q_species)/<z> at " + ctx.ptdesc(p),
                                res[k], base[k] * max(p["ne"] - qs[k], 0.0) / zm, neutral_expect(ctx, p, qs[k])[0],
                                neutral_expect(ctx, p, qs[k], p["x0"], p["zmean0"])[0], 1e-9)
    _donor_alternation(ctx)


def _donor_alternation(ctx):
    """One process, one data source, one donor element - the donor's charge state alternates between calls (He0, He+, He0, ... after
    the calls above, which all used the case's own donor).  Every call must solve the balance of the donor it was given."""
    np, ib, R = _G["np"], _G["ib"], _G["R"]
    if ctx.dcls != "pos":
        return
    ctx.classes.append("sequence:donor-charge-alternates")
    he = _G["el"][2]
    order = ((1 - ctx.dq) if ctx.dz == 2 else 0, 1, 0, 0, 1) if ctx.dz == 2 else (0, 1, 0, 1, 1)
    for step, dq in enumerate(order):
        for k, p0 in enumerate(ctx.pts):
            if p0["nd"] is None or k % 3:
                continue
            key = (ctx.fam, ctx.Z, p0["ne"], p0["te"], p0["nd"], 2, dq)
            x_ref, S, A = R.fractions(ctx.fam, ctx.Z, p0["ne"], p0["te"], p0["nd"], 2, dq)
            other = R.fractions(ctx.fam, ctx.Z, p0["ne"], p0["te"], p0["nd"], 2, 1 - dq)[0]
            for entry, fn, args in (("fractional_abundance", ib.fractional_abundance, (p0["ne"], p0["te"])),
                                    ("from_elementdensity", ib.from_elementdensity, (1.0e-3 * p0["ne"], p0["ne"], p0["te"]))):
                r, err = ctx.call(fn, ctx.ad, ctx.el, *args, tcx_donor=he, tcx_donor_n=p0["nd"], tcx_donor_charge=dq)
                ctx.n += 1
                if err is not None:
                    ctx.failed(entry, "scalar:donor-charge-alternates", err, "scalar call at " + ctx.ptdesc(p0))
                    continue
                prof = _profile(ctx, entry, "scalar:donor-charge-alternates", r, (1,))
                if prof is None:
                    continue
                x = prof[:, 0] / (1.0 if entry == "fractional_abundance" else 1.0e-3 * p0["ne"])
                ctx.states.append(key)
                if float(np.max(np.abs(x_ref - other))) > DISTINCT:
                    ctx.nontrivial.append((entry, "donor-charge-alternates", key, step))
                    ctx.classes.append("sequence:donor-charge-distinguishable")
                if float(np.max(np.abs(x - x_ref))) > TOL_X:
                    which = "equals-the-balance-of-the-other-donor-charge" if float(np.max(np.abs(x - other))) <= TOL_X else "differs-from-closed-form"
                    ctx.V("%s:sequence:donor-charge-alternates:%s" % (entry, which),
                          "call #%d of the sequence He(%s) [after the case's own donor] with tcx_donor_charge=%d at %s"
                          % (step + 1, ",".join(str(q) for q in order), dq, ctx.ptdesc(p0)), x_ref, x)


def _zm(x):
    return math.fsum(q * v for q, v in enumerate(x))


Ctx._zm = staticmethod(_zm)


def run_rep(ctx, entry, rep, extra_vals=None, sp=None, container="dict"):
    """one call of a core entry point in representation rep -> (ndarray (Z+1,*shape) or None, shape, ks)"""
    ib = _G["ib"]
    kne, kte, knd, kx, fvf, shape, ks = rep_spec(rep)
    pts = ctx.pts
    ne = as_kind(kne, [p["ne"] for p in pts], K0)
    te = as_kind(kte, [p["te"] for p in pts], K0)
    nd = None if ctx.donor is None else as_kind(knd, [p["nd"] for p in pts], K0)
    kw = ctx.donor_kw(nd)
    fv = fvf()
    if fv is not None:
        kw["free_variable"] = fv
    if entry == "fractional_abundance":
        r, err = ctx.call(ib.fractional_abundance, ctx.ad, ctx.el, ne, te, **kw)
    elif entry == "from_elementdensity":
        r, err = ctx.call(ib.from_elementdensity, ctx.ad, ctx.el, as_kind(kx, extra_vals, K0), ne, te, **kw)
    else:
        if container == "ndarray":
            skind = {"arr1": "arr1", "arr1-len1": "arr1-len1", "arr2": "arr2"}.get(kx)
            if skind is None:
                skind = "arr2" if len(shape) == 2 else ("arr1" if shape == (12,) else "arr1-len1")
        else:
            skind = kx
        r, err = ctx.call(ib.match_plasma_neutrality, ctx.ad, ctx.el, species_arg(sp, container, skind, K0), ne, te, **kw)
    if err is not None:
        ctx.failed(entry, rep, err, "call with a documented input representation")
        if _exc_type(err) == "DoesNotReturn":
            ctx.hung.add(("profile", entry))
        return None, shape, ks
    return _profile(ctx, entry, rep, r, shape), shape, ks


def group_repr(ctx, entry):
    """every representation of one core entry point: reference oracles + agreement with the scalar call"""
    ctx.classes.append("entry:" + entry)
    allk = list(range(len(ctx.pts)))
    if entry == "fractional_abundance":
        variants = [(None, None, None, "dict")]
    elif entry == "from_elementdensity":
        variants = [(("below-ne", 1e-3), None, None, "dict")]
    else:
        variants = [(None, "two", species_values(ctx, "two"), "dict"), (None, "one", species_values(ctx, "one"), "ndarray"),
                    (None, "two", species_values(ctx, "two"), "dict-desc")]
    for nel, scls, spq, container in variants:
        sp, qs = spq if spq else (None, None)
        if scls:
            ctx.classes += ["species:" + scls, "species-container:" + container]
        if nel:
            ctx.classes.append("nel:" + nel[0])
        ctx.classes.append("repr:scalar")
        extra = [nel[1] * p["ne"] * (1 + 0.1 * k) for k, p in enumerate(ctx.pts)] if nel else None
        if nel:
            # scalar baseline with the same (k dependent) element density
            base = {}
            ib = _G["ib"]
            for k in allk:
                p = ctx.pts[k]
                r, err = ctx.call(ib.from_elementdensity, ctx.ad, ctx.el, extra[k], p["ne"], p["te"], **ctx.donor_kw(p["nd"]))
                prof = None if err is not None else _profile(ctx, entry, "scalar", r, (1,))
                if err is not None:
                    ctx.failed(entry, "scalar", err, "scalar call at " + ctx.ptdesc(p))
                    if _exc_type(err) == "DoesNotReturn":
                        ctx.hung.add((entry, k))
                base[k] = None if prof is None else prof[:, 0]
        else:
            base = scalar_baseline(ctx, entry, allk, sp=sp, container=container)
        for rep in REPS:
            if container == "ndarray" and rep_spec(rep)[3] not in ("arr1", "arr1-len1", "arr2"):
                continue
            ctx.classes.append("repr:" + rep)
            if ("profile", entry) in ctx.hung and any((entry, k) in ctx.hung for k in rep_spec(rep)[6]):
                # a profile containing a lattice point at which the scalar call does not return has already been tried once
                # (and did not return either); the remaining representations of the same profile are not waited for
                for k in rep_spec(rep)[6]:
                    ctx.visit(entry, rep + ":not-called:does-not-return", ctx.pts[k])
                continue
            prof, shape, ks = run_rep(ctx, entry, rep, extra_vals=extra, sp=sp, container=container)
            for idx, k in enumerate(ks):
                p = ctx.pts[k]
                ctx.visit(entry, rep + ":" + container, p)
                if prof is None:
                    continue
                col = _col(prof, idx, shape)
                ctx.check += float(_zm(col)) / max(p["ne"] if entry != "fractional_abundance" else 1.0, 1.0)
                if entry == "fractional_abundance":
                    check_fractions(ctx, entry, col, p)
                elif entry == "from_elementdensity":
                    check_density(ctx, entry, col, extra[k], p)
                else:
                    check_neutral(ctx, entry, col, qs[k], p, scls)
                if base[k] is not None:
                    agree(ctx, "%s:repr=%s:differs-from-scalar-call" % (entry, rep),
                          "representation gives another result than the scalar call at " + ctx.ptdesc(p), col, base[k])
    _flat_plasma_varying_donor(ctx, entry)


def _flat_plasma_varying_donor(ctx, entry):
    """A profile whose points share bit-identical (n_e, T_e) but differ in the donor density (a flat core with a decaying
    neutral profile): every point must equal the scalar call with its own donor density."""
    if ctx.donor is None or entry == "match_plasma_neutrality":
        return
    ib, np = _G["ib"], _G["np"]
    p0 = ctx.pts[K0]
    if not p0["nd"] > 0:
        return
    nds = [p0["nd"], 0.1 * p0["nd"], 7.0 * p0["nd"], 0.0]
    ne, te = np.full(len(nds), p0["ne"]), np.full(len(nds), p0["te"])
    kw = ctx.donor_kw(np.array(nds))
    if entry == "fractional_abundance":
        r, err = ctx.call(ib.fractional_abundance, ctx.ad, ctx.el, ne, te, **kw)
    else:
        r, err = ctx.call(ib.from_elementdensity, ctx.ad, ctx.el, 1e-3 * ne, ne, te, **kw)
    ctx.classes.append("repr:flat-plasma-varying-donor")
    if err is not None:
        ctx.failed(entry, "flat-plasma-varying-donor", err, "array call with constant n_e, T_e and a varying donor density")
        return
    prof = _profile(ctx, entry, "flat-plasma-varying-donor", r, (len(nds),))
    if prof is None:
        return
    for i, nd in enumerate(nds):
        kw1 = ctx.donor_kw(nd)
        if entry == "fractional_abundance":
            r1, e1 = ctx.call(ib.fractional_abundance, ctx.ad, ctx.el, p0["ne"], p0["te"], **kw1)
        else:
            r1, e1 = ctx.call(ib.from_elementdensity, ctx.ad, ctx.el, 1e-3 * p0["ne"], p0["ne"], p0["te"], **kw1)
        if e1 is not None:
            continue
        b1 = _profile(ctx, entry, "scalar", r1, (1,))
        if b1 is None:
            continue
        agree(ctx, "%s:repr=flat-plasma-varying-donor:differs-from-scalar-call" % entry,
              "point %d of a profile with constant n_e, T_e and donor densities %s differs from the scalar call with its own donor density" % (i, nds),
              prof[:, i], b1[:, 0])


def _core_profiles(ctx, kind, shape, nel_vals, sp, qs):
    """core entry points on the array representation (reference-checked) -> dict entry -> ndarray (Z+1,*shape) or None"""
    ib = _G["ib"]
    pts = ctx.pts
    ne = as_kind(kind, [p["ne"] for p in pts])
    te = as_kind(kind, [p["te"] for p in pts])
    nd = None if ctx.donor is None else as_kind(kind, [p["nd"] for p in pts])
    kw = ctx.donor_kw(nd)
    rep = "array1d" if kind == "arr1" else "array2d"
    out = {}
    calls = {
        "fractional_abundance": lambda: ctx.call(ib.fractional_abundance, ctx.ad, ctx.el, ne, te, **kw),
        "from_elementdensity": lambda: ctx.call(ib.from_elementdensity, ctx.ad, ctx.el, as_kind(kind, nel_vals), ne, te, **kw),
        "match_plasma_neutrality": lambda: ctx.call(ib.match_plasma_neutrality, ctx.ad, ctx.el, species_arg(sp, "dict", kind), ne, te, **kw),
    }
    for entry, fn in calls.items():
        r, err = fn()
        if err is not None:
            ctx.failed(entry, rep, err, "call with a documented input representation")
            out[entry] = None
            continue
        prof = _profile(ctx, entry, rep, r, shape)
        out[entry] = prof
        if prof is None:
            continue
        for k, p in enumerate(pts):
            col = _col(prof, k, shape)
            if entry == "fractional_abundance":
                check_fractions(ctx, entry, col, p)
            elif entry == "from_elementdensity":
                check_density(ctx, entry, col, nel_vals[k], p)
            else:
                check_neutral(ctx, entry, col, qs[k], p, "two")
    return out


def _eval(ctx, wrapper, f, *args):
    try:
        return float(f(*args)), None
    except Exception as e:  # noqa
        return None, type(e).__name__ + ": " + str(e)[:200]


def group_interp(ctx, dim):
    """interpolators{1,2}d_* (+ axisymmetric mapper): equal to the core profile at the nodes, linear in between"""
    np, ib = _G["np"], _G["ib"]
    pts = ctx.pts
    nel_vals = [1e-3 * p["ne"] * (1 + 0.1 * k) for k, p in enumerate(pts)]
    sp, qs = species_values(ctx, "two")
    ctx.classes += ["species:two", "species-container:dict", "nel:below-ne"]
    if dim == 1:
        kind_arr, kinds_in, shape = "arr1", ("arr1", "f1i"), (12,)
        fvs = lambda: np.array(X1)                                               # noqa: E731
        nodes = [(x,) for x in X1]
        mids = [((X1[k] + X1[k + 1]) / 2,) for k in range(len(X1) - 1)]
        names = ("interpolators1d_fractional", "interpolators1d_from_elementdensity", "interpolators1d_match_plasma_neutrality")
        reps = {"arr1": "array1d", "f1i": "func1d+fv-array"}
    else:
        kind_arr, kinds_in, shape = "arr2", ("arr2", "f2i"), (3, 4)
        fvs = lambda: (np.array(XA), np.array(YA))                               # noqa: E731
        nodes = [(x, y) for x in XA for y in YA]
        mids = [((XA[i] + XA[i + 1]) / 2, (YA[j] + YA[j + 1]) / 2) for i in range(2) for j in range(3)]
        names = ("interpolators2d_fractional", "interpolators2d_from_elementdensity", "interpolators2d_match_plasma_neutrality")
        reps = {"arr2": "array2d", "f2i": "func2d+fv-tuple"}
    core = _core_profiles(ctx, kind_arr, shape, nel_vals, sp, qs)
    for kin in kinds_in:
        ctx.classes.append("repr:" + reps[kin])
        ne = as_kind(kin, [p["ne"] for p in pts])
        te = as_kind(kin, [p["te"] for p in pts])
        nd = None if ctx.donor is None else as_kind(kin, [p["nd"] for p in pts])
        kw = ctx.donor_kw(nd)
        for name, centry in zip(names, CORE):
            ctx.classes += ["entry:" + name, "entry:" + centry]
            if centry in ctx.hung:
                # the core entry point did not return on this very profile (reported under the core's signature);
                # the wrapper runs the same point solver on it
                for k, p in enumerate(pts):
                    ctx.visit(name, "not-called:core-does-not-return", p)
                continue
            if centry == "fractional_abundance":
                r, err = ctx.call(getattr(ib, name), ctx.ad, ctx.el, fvs(), ne, te, **kw)
            elif centry == "from_elementdensity":
                r, err = ctx.call(getattr(ib, name), ctx.ad, ctx.el, fvs(), as_kind(kin, nel_vals), ne, te, **kw)
            else:
                r, err = ctx.call(getattr(ib, name), ctx.ad, ctx.el, fvs(), species_arg(sp, "dict", kin), ne, te, **kw)
            for k, p in enumerate(pts):
                ctx.visit(name, reps[kin], p)
            if err is not None:
                ctx.failed(name, reps[kin], err, "wrapper", "a dict of interpolators")
                continue
            if not isinstance(r, dict) or sorted(r.keys()) != list(range(ctx.Z + 1)):
                ctx.V("%s:result-keys" % name, "result is not a dict keyed by charge 0..Z", list(range(ctx.Z + 1)), repr(r)[:200])
                continue
            cp = core[centry]
            if cp is None:
                continue
            at_nodes = np.zeros((ctx.Z + 1, len(nodes)))
            at_mids = np.zeros((ctx.Z + 1, len(mids)))
            bad = None
            for q in range(ctx.Z + 1):
                for i, xy in enumerate(nodes):
                    v, e = _eval(ctx, name, r[q], *xy)
                    if e is not None:
                        bad = e
                        break
                    at_nodes[q, i] = v
                for i, xy in enumerate(mids):
                    v, e = _eval(ctx, name, r[q], *xy)
                    if e is not None:
                        bad = e
                        break
                    at_mids[q, i] = v
                if bad:
                    break
            ctx.transitions += (ctx.Z + 1) * (len(nodes) + len(mids))
            if bad:
                ctx.V("%s:evaluate:raises:%s" % (name, _exc_type(bad)), "returned interpolator raises inside its domain", "a value", bad)
                continue
            flat = cp.reshape(ctx.Z + 1, -1)
            agree(ctx, "%s:nodes-differ-from-%s" % (name, centry), "interpolator at its nodes != %s on the same profile" % centry, at_nodes, flat, tol=1e-12)
            if dim == 1:
                expm = 0.5 * (flat[:, :-1] + flat[:, 1:])
            else:
                expm = np.array([[0.25 * (cp[q, i, j] + cp[q, i + 1, j] + cp[q, i, j + 1] + cp[q, i + 1, j + 1])
                                  for i in range(2) for j in range(3)] for q in range(ctx.Z + 1)])
            ctx.classes.append("between-nodes")
            agree(ctx, "%s:not-linear-between-nodes" % name, "interpolator between nodes != linear interpolation of the node values", at_mids, expm, tol=1e-12)
            ctx.check += float(np.sum(at_mids) / (np.max(np.abs(at_mids)) + 1e-300))
            if dim == 2 and kin == "f2i":
                # axisymmetric mapper of the 2D interpolators: f(x, y, z) = f2d(sqrt(x^2+y^2), z)
                ctx.classes.append("entry:abundance_axisymmetric_mapper")
                m, err = ctx.call(ib.abundance_axisymmetric_mapper, r)
                if err is not None or not isinstance(m, dict) or sorted(m.keys()) != list(range(ctx.Z + 1)):
                    ctx.V("abundance_axisymmetric_mapper:raises-or-keys", "mapper construction failed", "dict keyed by charge", err or repr(m)[:200])
                    continue
                pts3 = [(1.0, 0.0, 2.0), (0.0, 2.0, 1.0), (-1.0, 0.0, 0.0), (0.9, 1.2, 2.5), (0.3, 0.4, 0.5), (0.0, -1.5, 3.0)]
                got = np.zeros((ctx.Z + 1, len(pts3)))
                exp = np.zeros((ctx.Z + 1, len(pts3)))
                bad = None
                for q in range(ctx.Z + 1):
                    for i, (x, y, z) in enumerate(pts3):
                        v, e = _eval(ctx, "mapper", m[q], x, y, z)
                        w, e2 = _eval(ctx, "interp2d", r[q], math.sqrt(x * x + y * y), z)
                        if e or e2:
                            bad = e or e2
                            break
                        got[q, i], exp[q, i] = v, w
                    if bad:
                        break
                ctx.transitions += (ctx.Z + 1) * len(pts3)
                if bad:
                    ctx.V("abundance_axisymmetric_mapper:evaluate:raises:%s" % _exc_type(bad), "mapper raises inside the domain", "a value", bad)
                else:
                    agree(ctx, "abundance_axisymmetric_mapper:differs-from-f2d(r,z):%s" % centry, "mapper(x,y,z) != interpolator(sqrt(x^2+y^2), z)", got, exp, tol=1e-12)


PSIN = [1.1 * k / 11.0 for k in range(12)]
EQ_OFFSETS = [(0.05, 0.0, 0.0), (0.2, 0.3, 1.0), (0.4, -0.5, 2.5), (0.2, 0.0, -2.0), (0.0, 0.3, 4.0), (0.4, 0.3, 0.7), (0.6, 0.0, 0.3)]


def group_equilibrium(ctx):
    """equilibrium_map3d_*: value at (x,y,z) == profile(psi_n(r,z)) inside the LCFS, 0 outside"""
    np, ib = _G["np"], _G["ib"]
    from raysect.core.math.function.float import Interpolator1DArray
    eq = _equilibrium()
    pts = ctx.pts
    nel_vals = [1e-3 * p["ne"] * (1 + 0.1 * k) for k, p in enumerate(pts)]
    sp, qs = species_values(ctx, "two")
    ctx.classes += ["species:two", "species-container:dict", "nel:below-ne"]
    core = _core_profiles(ctx, "arr1", (12,), nel_vals, sp, qs)
    psin = np.array(PSIN)
    ax = eq.magnetic_axis
    xyz, psis, inside = [], [], []
    for dr, dz, phi in EQ_OFFSETS:
        r, z = ax.x + dr, ax.y + dz
        x, y = r * math.cos(phi), r * math.sin(phi)
        rr = math.sqrt(x * x + y * y)
        xyz.append((x, y, z))
        psis.append(float(eq.psi_normalised(rr, z)))
        inside.append(bool(eq.inside_lcfs(rr, z) > 0.0))
    if all(inside) or not any(inside):
        raise RuntimeError("harness: equilibrium sample points must be on both sides of the LCFS: %r" % inside)

    def f1(vals):
        return Interpolator1DArray(psin, np.array([float(v) for v in vals]), "linear", "none", 0)

    names = ("equilibrium_map3d_fractional", "equilibrium_map3d_from_elementdensity", "equilibrium_map3d_match_plasma_neutrality")
    for kin in ("arr1", "f1"):
        rep = "array1d" if kin == "arr1" else "func1d+fv-array"
        ctx.classes.append("repr:" + rep)
        conv = (lambda v: np.array([float(a) for a in v])) if kin == "arr1" else f1
        ne, te = conv([p["ne"] for p in pts]), conv([p["te"] for p in pts])
        nd = None if ctx.donor is None else conv([p["nd"] for p in pts])
        kw = ctx.donor_kw(nd)
        for name, centry in zip(names, CORE):
            ctx.classes += ["entry:" + name, "entry:" + centry]
            if centry in ctx.hung:
                # the core entry point did not return on this very profile (reported under the core's signature);
                # the wrapper runs the same point solver on it
                for k, p in enumerate(pts):
                    ctx.visit(name, "not-called:core-does-not-return", p)
                continue
            if centry == "fractional_abundance":
                r, err = ctx.call(getattr(ib, name), ctx.ad, ctx.el, eq, psin.copy(), ne, te, **kw)
            elif centry == "from_elementdensity":
                r, err = ctx.call(getattr(ib, name), ctx.ad, ctx.el, eq, psin.copy(), conv(nel_vals), ne, te, **kw)
            else:
                spa = [{q: conv([s[k][q] for k in range(len(s))]) for q in range(len(s[0]))} for s in sp]
                r, err = ctx.call(getattr(ib, name), ctx.ad, ctx.el, eq, psin.copy(), spa, ne, te, **kw)
            for k, p in enumerate(pts):
                ctx.visit(name, rep, p)
            if err is not None:
                ctx.failed(name, rep, err, "wrapper", "a dict of Function3D")
                continue
            if not isinstance(r, dict) or sorted(r.keys()) != list(range(ctx.Z + 1)):
                ctx.V("%s:result-keys" % name, "result is not a dict keyed by charge 0..Z", list(range(ctx.Z + 1)), repr(r)[:200])
                continue
            cp = core[centry]
            if cp is None:
                continue
            got = np.zeros((ctx.Z + 1, len(xyz)))
            exp = np.zeros((ctx.Z + 1, len(xyz)))
            bad = None
            for q in range(ctx.Z + 1):
                if centry == "match_plasma_neutrality":
                    # this wrapper hands (psi_n, profile) to EFITEquilibrium.map3d, whose interpolation of an array is the
                    # equilibrium's business: the expected value is map3d of the core profile
                    expf = eq.map3d((psin, cp[q]))
                for i, (x, y, z) in enumerate(xyz):
                    v, e = _eval(ctx, name, r[q], x, y, z)
                    if e is not None:
                        bad = e
                        break
                    got[q, i] = v
                    if not inside[i]:
                        exp[q, i] = 0.0
                    elif centry == "match_plasma_neutrality":
                        exp[q, i] = expf(x, y, z)
                    else:
                        exp[q, i] = float(np.interp(psis[i], psin, cp[q]))
                if bad:
                    break
            ctx.transitions += (ctx.Z + 1) * len(xyz)
            ctx.classes += ["between-nodes", "outside-lcfs"]
            if bad:
                ctx.V("%s:evaluate:raises:%s" % (name, _exc_type(bad)), "mapped function raises inside the equilibrium grid", "a value", bad)
                continue
            agree(ctx, "%s:differs-from-%s-mapped-on-psi" % (name, centry), "f(x,y,z) != profile(psi_n(r,z)) of %s (0 outside the LCFS)" % centry,
                  got, exp, tol=1e-9)
            ctx.check += float(np.sum(got) / (np.max(np.abs(got)) + 1e-300))


# ---------------------------------------------------------------------------------------------------------------
def run_case(case):
    setup_worker(None)
    ctx = Ctx(case)
    g = case["group"]
    if g == "scalar":
        group_scalar(ctx)
    elif g == "repr-fractional":
        group_repr(ctx, "fractional_abundance")
    elif g == "repr-elementdensity":
        group_repr(ctx, "from_elementdensity")
    elif g == "repr-neutrality":
        group_repr(ctx, "match_plasma_neutrality")
    elif g == "interp1d":
        group_interp(ctx, 1)
    elif g == "interp2d":
        group_interp(ctx, 2)
    elif g == "equilibrium":
        group_equilibrium(ctx)
    else:
        raise ValueError(g)
    return ctx.result()
